#!/bin/bash
# usage: bin/try_mutant.sh <patch.diff> <prop> [<prop> ...]   -- applies the patch to /repo, runs the quick checks, undoes it
set -u
PATCH="$1"; shift
cd /repo || exit 2
if ! git diff --quiet; then echo "repo has uncommitted changes"; exit 2; fi
if ! git apply --check "$PATCH" 2>/dev/null; then
  if git apply --3way "$PATCH" 2>/dev/null; then echo "(applied with 3way)"; git reset -q; else echo "PATCH DOES NOT APPLY: $PATCH"; git reset -q --hard HEAD; exit 3; fi
else
  git apply "$PATCH"
fi
cd /verif
for p in "$@"; do
  out=$(VERIF_SEED=${VERIF_SEED:-1} bin/verif check "$p" --tier quick 2>&1); rc=$?
  nv=$(echo "$out" | grep -c '^VIOLATION')
  echo "MUTANT $(basename $(dirname $PATCH))/$(basename $PATCH) check=$p rc=$rc violations=$nv :: $(echo "$out" | grep -m1 'clause=' | cut -c1-200)"
done
git -C /repo checkout -- .
