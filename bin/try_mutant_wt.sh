#!/bin/bash
# usage: bin/try_mutant_wt.sh <patch.diff> <prop> [<prop> ...]
# Like try_mutant.sh but never touches /repo: the patch is applied in a scratch worktree of /repo's HEAD and the
# checks import skglm from there (PYTHONPATH). Several of these can run side by side.
set -u
PATCH="$(readlink -f $1)"; shift
WT=/tmp/wtc/try_$$; mkdir -p /tmp/wtc
git -C /repo worktree add -q --detach $WT HEAD || exit 2
cd $WT
if ! git apply --check "$PATCH" 2>/dev/null; then
  if git apply --3way "$PATCH" >/dev/null 2>&1; then git reset -q; else echo "PATCH DOES NOT APPLY: $PATCH"; cd /; git -C /repo worktree remove --force $WT; exit 3; fi
else
  git apply "$PATCH"
fi
cd /verif
for p in "$@"; do
  out=$(PYTHONPATH=$WT VERIF_WORK=/tmp/wtc/work_$$ VERIF_OUT=/tmp/wtc/out_$$ VERIF_SEED=${VERIF_SEED:-1} bin/verif check "$p" --tier quick 2>&1); rc=$?
  nv=$(echo "$out" | grep -c '^VIOLATION')
  echo "MUTANT $(basename $(dirname $PATCH))/$(basename $PATCH) check=$p rc=$rc violations=$nv :: $(echo "$out" | grep -m1 'clause=' | cut -c1-200)"
  if [ $rc = 2 ]; then echo "$out" | grep -m1 -A8 'MACHINERY' | cut -c1-400 | sed 's/^/   | /'; echo "$out" > /tmp/wtc/rc2_$(basename $(dirname $PATCH))_$p.log; fi
done
cd /; git -C /repo worktree remove --force $WT; rm -rf /tmp/wtc/work_$$ /tmp/wtc/out_$$
