#!/usr/bin/env python3
"""Regenerate MANIFEST.json from the table below (single source of truth for registrations)."""
import json, os, subprocess
V = os.path.dirname(os.path.dirname(os.path.abspath(__file__)))
BASE = "cd /repo && SKGLM_VERIF= /venv/bin/python -m pytest -ra -q -p no:cacheprovider --timeout=900 --continue-on-collection-errors"
hooks = subprocess.run(["git", "-C", "/repo", "log", "--format=%H %s", "--grep=^verif hooks"], capture_output=True, text=True).stdout.strip().splitlines()

TRACE_NOTE = ("Trusted: the numpy oracle harness/oracle (mirror of specs/math, never imports skglm), the order-preserving rank "
              "encoding, TLC, float64 arithmetic, tolerances of DESIGN 5.2. Exhaustive only within the constants of each TLC config; "
              "real-float coverage is sampling driven by TLC-generated scenario structure (seeded by VERIF_SEED).")
REL_NOTE = ("Trusted: harness/oracle objective; for C02 the reference implementations (scikit-learn, celer 0.7.4, scipy linprog). "
            "Pairs are compared when both runs report convergence; problems are tall and well conditioned so that minimisers are "
            "unique where coefficients are compared.")
CHECKS = {
 "C01": dict(tech="TLA+ design model CDCore (TLC exhaustive) + TLC-generated scenarios replayed on the real solvers + trace validation by the SolverTrace monitor spec (clauses cert, cert_outer against an independent oracle) + the stopping values reported by path() judged against the returned columns (path_cert, path_coefs_are_the_step_solutions)",
             text="Model checking of the working-set CD design (CertSound, Consistent over every budget, working-set tie-break, warm support, unpenalised set) and trace validation: every real run's events are judged by TLC; a stopping value <= tol must be matched by the first-order violation recomputed from X, y, w alone.", ref="6 C01"),
 "C03": dict(tech="CDCore action property Descent (TLC) + trace validation of every intermediate state of instrumented runs (clauses descent, accept_safe, accept_guard, start) + MicroCD exact replay (spec -> code) + Reweight.tla majorise-minimise model and observed reweighting runs (rw_descent, rw_weights_valid, rw_hist_true)",
             text="Every event of a run (each epoch, each Anderson step, each record) carries the oracle objective; TLC checks monotonicity at every prefix = every budget, and that accepted extrapolations never increase the true objective nor the objective of the buffers the guard sees. The exact dyadic model MicroCD.tla is replayed into AndersonCD and cyclic GramCD (iterates must be equal float for float). Iterative reweighting: Reweight.tla proves Descent / Majorises for weights = d pen / d|w| and refutes them for signed derivatives; every surrogate solve of real IterativeReweightedL1 runs is observed and the true objective of successive iterates judged.", ref="6 C03"),
 "C04": dict(tech="CDCore invariant Feasible (TLC) + trace validation of feasibility/finiteness at every event and at return, budgets ending right after an extrapolation",
             text="Feasibility is evaluated by TLC at every observed state of every run (every stopping point), scenarios restricted by the spec to constraint penalties; finiteness of every returned number.", ref="6 C04"),
 "C17": dict(tech="CDCore invariants HistFaithful, CritOfReturned (TLC) + trace validation (hist_len, hist_value, hist_ret, hist_last, crit_of_returned, crit_value) for all nine solvers + estimator fits observed under the same monitor (n_iter_eq, n_iter_hist) + SolverObject.tla (history per solve; refuted variant: history kept on the object) bound by one solver object solving two problems in a row",
             text="The monitor counts record events, compares each recorded value with the oracle objective at that moment, the returned array with what was recorded, and the returned stopping value with the oracle violation of the returned point. Estimators are fitted with the solve inside fit() observed: n_iter_ must equal the number of outer iterations that solve performed, for exhausted budgets and for runs that converge early.", ref="6 C17"),
 "C06": dict(tech="exact lattice vectors judged by TLC against the documented losses written in TLA+ (Datafit.tla: derivatives derived by exact central differences / Huber piece table / closed rational forms on the ln2-lattice) + accessor and dense==CSC agreement facts judged by the RelTrace monitor",
             text="For every datafit and accessor TLC recomputes, with exact rational arithmetic, the value the documented loss demands at each lattice point and compares it with what the compiled code returned; accessor/storage agreement (incl. Cox with ties and censoring, Breslow and Efron) is judged on ranks.", ref="6 C06",
             note="Trusted: the transcription of the documented loss formulas (specs/math/Datafit.tla, harness/oracle/datafits.py), float->rational snapping at 1e-10, numpy. Exhaustive only over the sampled lattice (seeded)."),
 "C07": dict(tech="piece-table penalty definitions in TLA+ (Penalty.tla) with ProxSet derived as exact argmin; TLC decides membership of the code's prox output at every lattice point; dominance / KKT facts (RelTrace) for non-piecewise, block and SLOPE penalties",
             text="The prox is never transcribed: TLC derives the set of global minimisers from the documented penalty table (breakpoints + stationary points, exact rationals) and decides whether the compiled prox returned one of them, for all lattice inputs, steps, weights (zero included) and positivity; other penalties by dominance certificates.", ref="6 C07",
             note="Trusted: piece tables transcribed from docstrings; oracle values for non-piecewise penalties (gated against the spec on the lattice each run); snapping at 1e-10. Lattices are finite."),
 "C08": dict(tech="regular subdifferential [LeftD, RightD] and its distance derived in TLA+ from the piece tables; TLC compares with subdiff_distance/value at every lattice (w, grad); the prox-fixed-point <=> zero-distance law is checked by TLC both on the definition and on the code's outputs; the solvers' own fixed-point residual functions (dist_fix_point_cd / _bcd, multitask) and the group value functions are called directly on working sets that are not arange (fixpoint_fn_eq, value_eq)",
             text="TLC derives one-sided derivatives, subdifferential and distance from the penalty tables and decides equality with the code's score at every lattice point incl. kinks, boundaries, zero weights and infeasible points (distance must be infinite); block penalties against the oracle on rank-encoded facts.", ref="6 C08",
             note="Trusted: as C07."),
 "C09": dict(tech="TLC certifies observed coordinate constants against the exact second derivative of the documented loss (DataVec.tla, rational arithmetic); block/global constants against reference spectral norms as RelTrace facts (bound, tightness, sparse <= dense within power-method accuracy)",
             text="Constants are observed from the code and certified by TLC against the defining curvature inequality on exact data; global/block constants against eigenvalue references; Cox/sqrt Hessian accessors against dominance over lattice directions.", ref="6 C09",
             note="Trusted: numpy eigvalsh as the reference spectral norm; central differences of the oracle gradient for Cox curvature; Datafit.tla transcription."),
 "C13": dict(tech="TLA+ model of the validation protocol (Validate.tla) over attribute tables introspected from the working tree: TLC enumerates all cells, predicts the _validate verdict (bound to the real one) and the accepted-but-missing-method cells; selected cells executed in isolated workers; outcomes judged by TLC (RelTrace facts + SolverTrace monitor)",
             text="Model checking of the required-attribute protocol over the full composition matrix (14k cells with fit_intercept) + execution of predicted-late-failure cells and a stratified sample (all cells in the thorough tier): refusals must name a really missing method/structure, accepted cells must return finite values meeting the certificate, never die or hang.", ref="6 C13",
             note="Trusted: the explained() vocabulary/regex for 'names the method or structure', the oracle for cert, isolation by process (death/timeout observed by the parent)."),
 "C05": dict(tech="TLA+ history model Path.tla (TLC -simulate generates entry-point x operation histories, invariant WarmSound) replayed on the real entry points; every BaseSolver.solve inside a history is traced and judged by the SolverTrace monitor against the problem of THAT step (clauses cert, buffer); design model PathCore.tla of the path buffers (copies vs views, intercept in the warm fit; two refuted variants); what path() returns is judged against the per-step solutions (path_coefs_are_the_step_solutions, path_cert, path_alphas); sentinels from CDCore counterexamples",
             text="Histories of direct solves reusing buffers, path() over grids in every order from every coef_init shape, and warm_start refits after hyper-parameter changes are generated by TLC and executed; TLC judges each step's certificate against its own alpha and the consistency of the caller's buffers on return.", ref="6 C05"),
 "C19": dict(tech="TLA+ placement model Degenerate.tla (TLC -simulate) + permanent sentinel placements; real runs in isolated workers; SolverTrace monitor clauses finite, cert, zero_col_zero, explained_error, terminates, alive; placements include warm starts with weight on null columns, CSC storage with explicitly stored zeros and the primal-dual solver",
             text="TLC generates placements of zero / duplicated / constant / rescaled columns, zero or constant targets, n<p, single feature or group across solver compositions and storages; every run is watched for hangs and judged by TLC.", ref="6 C19"),
 "C20": dict(tech="TLA+ index model Bounds.tla (design constants satisfy InBounds; historical slicing conventions must violate it) + every scenario executed twice in fresh processes, with numba's bounds checker and without; RelTrace facts no_index_error, same_result",
             text="Index expressions of kernels are model-checked on lengths; real compositions (TLC-generated scenarios + sentinels from the model's counterexamples) run under NUMBA_BOUNDSCHECK=1 and unchecked, and TLC judges the pair.", ref="6 C20",
             note="Trusted: numba's own bounds checker; process isolation. Compositions with randomly started power-method constants are compared for errors only."),
 "C10": dict(tech="TLA+ representation model Storage.tla (TLC enumerates entry point x composition x container x dtype exhaustively, with the outcome the documentation promises) replayed on the real code against the dense-Fortran-float64 run; RelTrace facts same, not_refused, refuse_explained; scenarios also vary how a raw solve is started (cold, warm, warm on a column without stored entries), contrast-coded designs and CSC with stored zeros",
             text="The full finite product of representations and entry points is enumerated by TLC; each is executed and TLC judges equality with the canonical run (tolerance-based, float32 relaxed) or the explanatory refusal.", ref="6 C10",
             note="Trusted: the dense-F-float64 run as reference (covered by C01), the keyword rule for 'names the representation'. Quick tier: stratified sample of the enumerated product; thorough: all of it."),
 "C02": dict(tech="relation catalogue Relations.tla[Family=C02] (TLC enumerates family x applicable skglm solver/estimator x storage x intercept exhaustively) replayed against independent references (scikit-learn, celer, an LP for the quantile loss, the scaled-Lasso fixed point for sqrt-Lasso); RelTrace facts agree / unique_same_w judged by TLC",
             text="Every applicable skglm solver and ready-made estimator of each convex family is run to tight tolerance and TLC judges its oracle objective / coefficients against the reference optimum.", ref="6 C02", note=REL_NOTE),
 "C11": dict(tech="TLA+ transcription of every estimator docstring as an objective descriptor (Estimator.tla, TLC -simulate over constructor arguments) + real fits; the oracle evaluates the first-order residual of the DOCUMENTED objective at (coef_, intercept_); RelTrace facts stationary, primal_image, dual_feasible, refused_as_documented, intercept_param; sizes small / wide, variants plain / high_snr / y_1d",
             text="Constructor-argument tuples and the objective the documentation promises come from the spec; TLC judges stationarity of the fitted attributes for that objective (dual feasibility and primal image for LinearSVC).", ref="6 C11",
             note="Trusted: transcription of the class docstrings in Estimator.tla; harness/oracle; fits at tol 1e-9 judged at 1e-6*scale."),
 "C12": dict(tech="TLA+ model of label encoding / one-vs-rest / renaming (Classifier.tla, exhaustive enumeration of label alphabets x class counts x renamings x estimators) + real fits incl. per-class binary fits and fits on renamed labels; RelTrace facts predict_is_argmax, decision_is_linear, proba_*, rename, ovr_row_equals_binary_fit; renamed fits also as warm re-fits of the same object, an imbalanced null-model regime, probabilities far from the data",
             text="TLC enumerates the scenarios and judges, for each fitted classifier, predictions against classes_[argmax decision], probabilities, the effect of renaming the labels, and one-vs-rest rows against the separately fitted binary models (intercepts included).", ref="6 C12",
             note="Trusted: numpy recomputation of X coef^T + intercept; binary fits of the same estimator as OvR reference; separated clusters with n > p."),
 "C14": dict(tech="relation catalogue Relations.tla[Family=C14] (21 reduction kinds x storage x intercept, exhaustive) replayed on the real code; RelTrace fact agree (objective and, when unique, coefficients); definition-level coincidence on the exact lattices by PenVec/DataVec",
             text="Each general component configured to coincide with a simpler one is solved next to it and TLC judges agreement of the oracle objective / coefficients.", ref="6 C14", note=REL_NOTE),
 "C15": dict(tech="relation catalogue Relations.tla[Family=C15] (10 transformations x 11 solver compositions x storage x intercept, exhaustive, applicability decided in the spec) replayed on the real code with the induced map on solutions; RelTrace fact equivariant",
             text="Original and transformed problems (feature / group / within-group / task / sample permutations, stacking, scaling of y and alpha, rescaling a feature with its weight) are solved and TLC judges the mapped solutions.", ref="6 C15", note=REL_NOTE),
 "C16": dict(tech="relation catalogue Relations.tla[Family=C16] (11 penalty families x solvers/estimators x storage x intercept) with the critical strength computed independently (optimal unpenalised part first); RelTrace facts alpha_max_eq, null, null_unpenalised_optimal, nonnull",
             text="The critical alpha of the documented objective is computed by the oracle (intercept and zero-weight features optimised first); TLC judges the library's alpha_max against it, exact zeros and an optimal unpenalised part just above it, and a non-zero coefficient just below it.", ref="6 C16", note=REL_NOTE),
 "C18": dict(tech="TLA+ history model Purity.tla (TLC -simulate + permanent sentinel histories) executed one process per history, every fit compared with the same fit alone in a fresh process; RelTrace facts inputs_untouched, refit_ok, same_as_fresh, alive; solver-level twin (same solver object solves twice, every user array byte-compared, result against a fresh solver: resolve_same_as_fresh, refilled_same_as_fresh, solver_params_untouched, resolve_history_same_as_fresh) with its design model SolverObject.tla (2 design configs hold, 3 variants refuted: history on the object, parameter clamped on the object, cache keyed by identity; inductive invariant by Apalache in the thorough tier) and trace validation SolverObjectTrace.tla: the recorded solve / refill / solve sequence of every solver object replayed through the actions of SolverObject.tla (clause solver_object_trace)",
             text="Histories of fits, paths, set_params, clone / deepcopy / pickle of estimators and of bare datafit / penalty instances over estimators sharing compiled classes and data of different dtype / storage; TLC judges byte-identity of inputs, success of every fit and equality with fresh-process results.", ref="6 C18",
             note="Trusted: process isolation (one interpreter per history), tobytes() equality. Quick tier: 14 random histories + 10 sentinels (each history costs a full numba JIT)."),
}
NA = []
checks = []
for pid in sorted(CHECKS):
    c = CHECKS[pid]
    checks.append(dict(
        property_id=pid,
        quick_cmd=f"bin/verif check {pid} --tier quick",
        thorough_cmd=f"bin/verif check {pid} --tier thorough",
        evidence_file=f"/verif/evidence/{pid}.json",
        replay_cmd_template="bin/verif replay {path}",
        engine="tlc-trace",
        level_claimed=dict(category="model_checking", text=c["text"], design_ref="DESIGN.md section " + c["ref"]),
        level_note=c.get("note", TRACE_NOTE),
        technique=c["tech"]))
props = [json.loads(l)["id"] for l in open(os.path.join(V, "properties.jsonl"))]
for p in props:
    if p not in CHECKS and not any(n["property_id"] == p for n in NA):
        NA.append(dict(property_id=p, reason="check not built yet in this round (planned with the same TLA+ pipeline, see DESIGN.md section 6)"))
man = dict(
    version=1,
    setup_cmd="bin/verif setup",
    hooks=dict(guard="SKGLM_VERIF", enable="export SKGLM_VERIF=1 before importing skglm (bin/verif does it); hooks are add-only `if _verif.ON: _verif.emit(...)` lines",
               baseline_off_cmd=BASE, source_commits=[h.split()[0] for h in hooks], add_only=True),
    engines=[dict(name="tlc-trace", path="/verif/harness", serves_properties=sorted(CHECKS),
                  kind_free_text="TLA+ specs under /verif/specs checked with TLC 1.8; Python harness runs the real code under env-guarded hooks, rank-encodes traces, TLC monitor specs return one verdict per trace")],
    checks=checks,
    notes="Specification: /verif/specs (lib, math, solvers, api, trace, mc). Known findings: /verif/known_findings.jsonl. Seeded changes: /verif/seeded.",
    not_applicable=NA)
json.dump(man, open(os.path.join(V, "MANIFEST.json"), "w"), indent=1)
print("checks:", len(checks), "not_applicable:", len(NA))
