#!/bin/bash
# Runs the repository suite on /repo's HEAD (guard off) in a scratch worktree and compares with BASELINE.json.
WT=/tmp/wtc/baseline_$$; mkdir -p /tmp/wtc /tmp/bl
git -C /repo worktree add -q --detach $WT HEAD || exit 2
cd $WT
PYTHONPATH=$WT SKGLM_VERIF= /venv/bin/python -m pytest -ra -q -p no:cacheprovider --timeout=900 --continue-on-collection-errors --junitxml=/tmp/bl/base_$$.xml > /tmp/bl/base_$$.log 2>&1
python3 - /tmp/bl/base_$$.xml <<'PY'
import json,sys,xml.etree.ElementTree as ET
bl=json.load(open('/root/.vp/BASELINE.json'))
res={}
for tc in ET.parse(sys.argv[1]).iter('testcase'):
    res[tc.get('classname')+'::'+tc.get('name')]=not any(c.tag in('failure','error','skipped') for c in tc)
miss=[n for n in bl['stable_pass'] if not res.get(n)]
print("HEAD", sys.argv[1], "passed", sum(res.values()), "of", len(res), "stable_missing", miss)
PY
cd /; git -C /repo worktree remove --force $WT
