#!/usr/bin/env python3
"""Renders the seeded-change table of DESIGN.md section 14 from seeded/<id>/meta.json and seeded/matrix.json and
writes the `detected_by` field of every meta.json from the matrix. Usage: bin/render_seeded_table.py [--write]"""
import json
import os
import re
import sys

VERIF = os.path.dirname(os.path.dirname(os.path.abspath(__file__)))
S = os.path.join(VERIF, "seeded")
matrix = json.load(open(os.path.join(S, "matrix.json")))
rows = []
for d in sorted(os.listdir(S)):
    if not re.match(r"C\d\d-m\d+$", d):
        continue
    mp = os.path.join(S, d, "meta.json")
    meta = json.load(open(mp))
    res = matrix.get(d, {})
    caught = sorted(c for c, r in res.items() if isinstance(r, dict) and r.get("rc") == 1 and r.get("violations", 0) > 0)
    tried = sorted(c for c, r in res.items() if isinstance(r, dict))
    own = meta["breaks_property"]
    first = {c: res[c].get("first", "") for c in caught}
    meta["detected_by"] = (", ".join(f"{c} ({first[c].replace('clause=', '')})" for c in caught) if caught
                           else "not detected by " + ", ".join(tried) if tried else "not tried")
    meta["tried_against"] = tried
    if meta.get("status") == "neutralised":
        meta["detected_by"] = "neutralised: " + meta["neutralised_by"]
    if "--write" in sys.argv:
        json.dump(meta, open(mp, "w"), indent=1)
    files = sorted(set(re.findall(r"^\+\+\+ b/(\S+)", open(os.path.join(S, d, "patch.diff")).read(), re.M)))
    rows.append((d, own, ", ".join(os.path.basename(f) for f in files), meta["needs_to_manifest"],
                 ("(neutralised)" if meta.get("status") == "neutralised" else "**" + own + "**" if own in caught else "—"),
                 ", ".join(c for c in caught if c != own) or "—"))
print("| id | breaks | file | needs | own check | other checks |")
print("|---|---|---|---|---|---|")
for r in rows:
    print("| " + " | ".join(x.replace("|", "/") for x in r) + " |")
live = [r for r in rows if r[4] != "(neutralised)"]
n_own = sum(1 for r in live if r[4] != "—")
n_any = sum(1 for r in live if r[4] != "—" or r[5] != "—")
print(f"\n{len(live)} live seeded changes (+ {len(rows) - len(live)} neutralised by a repair); {n_own} caught by the check of the property they break, {n_any} by at least one "
      "registered check.")
