#!/bin/bash
# usage: bin/confirm_mutant.sh <name> <patch.diff> <demo.py>
# Confirms in a scratch worktree: patch applies to /repo HEAD, demo FAILS with it and PASSES without it,
# the repository suite still passes every baseline-stable test with it. Writes /tmp/confirm/<name>.json
NAME="$1"; PATCH="$(readlink -f $2)"; DEMO="$(readlink -f $3)"
WT=/tmp/wtc/$NAME; OUT=/tmp/confirm; mkdir -p $OUT /tmp/wtc
git -C /repo worktree remove --force $WT >/dev/null 2>&1
git -C /repo worktree add -q --detach $WT HEAD || exit 2
cd $WT
export PYTHONPATH=$WT SKGLM_VERIF= PYTHONWARNINGS=ignore OMP_NUM_THREADS=1 OPENBLAS_NUM_THREADS=1 NUMBA_NUM_THREADS=1
timeout 1200 /venv/bin/python $DEMO > $OUT/$NAME.demo_clean.txt 2>&1; rc_clean=$?
applies=1
git apply --check $PATCH 2>/dev/null || { git apply --3way $PATCH >/dev/null 2>&1 && git reset -q || applies=0; }
if [ $applies = 1 ]; then git apply $PATCH 2>/dev/null || true; fi
if git diff --quiet; then applies=0; fi
rc_mut=-1; tests_ok=-1; npass=-1
if [ $applies = 1 ]; then
  git diff > $OUT/$NAME.rebased.diff
  timeout 1200 /venv/bin/python $DEMO > $OUT/$NAME.demo_mut.txt 2>&1; rc_mut=$?
  timeout 3000 /venv/bin/python -m pytest -q -p no:cacheprovider --timeout=900 --continue-on-collection-errors --junitxml=$OUT/$NAME.xml > $OUT/$NAME.tests.txt 2>&1
  python3 - "$OUT/$NAME.xml" > $OUT/$NAME.testsum.txt <<'PY'
import json,sys,xml.etree.ElementTree as ET
bl=json.load(open('/root/.vp/BASELINE.json'))
res={}
for tc in ET.parse(sys.argv[1]).iter('testcase'):
    res[tc.get('classname')+'::'+tc.get('name')]=not any(c.tag in('failure','error','skipped') for c in tc)
miss=[n for n in bl['stable_pass'] if not res.get(n)]
print(json.dumps(dict(npass=sum(res.values()), ntotal=len(res), stable_missing=miss)))
PY
  tests_ok=$(python3 -c "import json;d=json.load(open('$OUT/$NAME.testsum.txt'));print(int(not d['stable_missing']))")
  npass=$(python3 -c "import json;d=json.load(open('$OUT/$NAME.testsum.txt'));print(d['npass'])")
fi
cd /; git -C /repo worktree remove --force $WT
echo "{\"name\":\"$NAME\",\"applies\":$applies,\"demo_clean_rc\":$rc_clean,\"demo_mut_rc\":$rc_mut,\"tests_stable_ok\":$tests_ok,\"npass\":$npass,\"head\":\"$(git -C /repo rev-parse --short HEAD)\"}" > $OUT/$NAME.json
cat $OUT/$NAME.json
