#!/usr/bin/env python3
"""install a confirmed seeded change: bin/install_mutant.py <name> <property> <needs> <detected_by> """
import json, os, shutil, sys
name, prop, needs, detected = sys.argv[1:5]
src_dir, k = name.split("-m")
k = "" if k == "1" else k
inbox = f"/verif/seeded/_inbox/{src_dir}"
conf = json.load(open(f"/tmp/confirm/{name}.json"))
assert conf["applies"] == 1 and conf["demo_clean_rc"] == 0 and conf["demo_mut_rc"] != 0 and conf["tests_stable_ok"] == 1, conf
dst = f"/verif/seeded/{name}"
os.makedirs(dst, exist_ok=True)
shutil.copy(f"/tmp/confirm/{name}.rebased.diff", f"{dst}/patch.diff")
shutil.copy(f"{inbox}/demo{k}.py", f"{dst}/demo.py")
round2 = k not in ("", "2") and not (src_dir == "C17" and k == "3")
kk = int(k or 1)
round3 = kk >= 5 and not (src_dir == "C17" and kk == 5)
nfile = f"{inbox}/notes3.md" if round3 else (f"{inbox}/notes2.md" if round2 else f"{inbox}/notes.md")
if os.path.exists(nfile):
    shutil.copy(nfile, f"{dst}/notes.md")
meta = dict(id=name, breaks_property=prop, needs_to_manifest=needs,
            confirmed=dict(worktree_head=conf["head"], patch_applies=True, demo_exit_without_change=conf["demo_clean_rc"],
                           demo_exit_with_change=conf["demo_mut_rc"], repo_tests_passed_with_change=conf["npass"],
                           baseline_stable_tests_all_pass=True,
                           commands=["git -C /repo worktree add --detach /tmp/wtc/<id> HEAD", "python demo.py (clean: exit 0)",
                                     "git apply patch.diff", "python demo.py (mutated: exit 1)",
                                     "pytest -q -p no:cacheprovider --timeout=900 (all baseline-stable tests pass)",
                                     "git worktree remove --force"]),
            detected_by=detected, author="independent sub-agent given only the property text")
json.dump(meta, open(f"{dst}/meta.json", "w"), indent=1)
print("installed", dst)
