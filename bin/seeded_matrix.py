#!/usr/bin/env python3
"""bin/seeded_matrix.py [--jobs N] [--only C01-m1,...] [--extra]
Tries every confirmed seeded change of /verif/seeded/<id>/ against the quick check of the property it breaks
(and, with --extra, against the neighbouring checks listed in NEIGHBOURS), each in its own scratch worktree of
/repo's HEAD (bin/try_mutant_wt.sh: /repo itself is never touched). Writes /verif/seeded/matrix.json:
  {mutant: {check: {"rc": int, "violations": int, "first": "clause=..."}}}
A seeded change counts as caught by a check when the check exits 1 with at least one VIOLATION line."""
import argparse
import concurrent.futures as cf
import json
import os
import re
import subprocess
import sys

VERIF = os.path.dirname(os.path.dirname(os.path.abspath(__file__)))
NEIGHBOURS = {
    "C01": ["C05", "C17"], "C02": ["C05", "C14", "C03", "C01", "C06"], "C03": ["C01", "C17", "C08"], "C04": ["C03"], "C05": ["C01"],
    "C06": ["C09"], "C07": ["C08"], "C08": ["C07"], "C09": ["C06"], "C10": ["C19", "C06"], "C11": ["C01", "C05"],
    "C12": ["C05"], "C13": [], "C14": ["C07"], "C15": ["C07", "C14"], "C16": ["C14", "C05"], "C17": ["C01", "C16"],
    "C18": [], "C19": ["C10"], "C20": ["C13"],
}


def try_one(mut, checks):
    patch = os.path.join(VERIF, "seeded", mut, "patch.diff")
    out = subprocess.run([os.path.join(VERIF, "bin", "try_mutant_wt.sh"), patch] + checks, capture_output=True,
                         text=True, env=dict(os.environ, VERIF_SEED=os.environ.get("VERIF_SEED", "1")))
    res = {}
    for line in out.stdout.splitlines():
        m = re.match(r"MUTANT \S+ check=(\S+) rc=(\d+) violations=(\d+) :: ?(.*)", line)
        if m:
            first = re.search(r"clause=\S+", m.group(4))
            res[m.group(1)] = dict(rc=int(m.group(2)), violations=int(m.group(3)),
                                   first=first.group(0) if first else "")
        elif "DOES NOT APPLY" in line:
            res["_error"] = "patch does not apply to HEAD"
    return mut, res


def main():
    ap = argparse.ArgumentParser()
    ap.add_argument("--jobs", type=int, default=3)
    ap.add_argument("--only", default="")
    ap.add_argument("--extra", action="store_true")
    a = ap.parse_args()
    muts = sorted(d for d in os.listdir(os.path.join(VERIF, "seeded"))
                  if re.match(r"C\d\d-m\d+$", d) and os.path.exists(os.path.join(VERIF, "seeded", d, "patch.diff")))
    if a.only:
        muts = [m for m in muts if m in a.only.split(",")]
    path = os.path.join(VERIF, "seeded", "matrix.json")
    matrix = json.load(open(path)) if os.path.exists(path) else {}
    jobs = []
    for m in muts:
        prop = json.load(open(os.path.join(VERIF, "seeded", m, "meta.json")))["breaks_property"]
        checks = [prop] + (NEIGHBOURS.get(prop, []) if a.extra else [])
        jobs.append((m, checks))
    with cf.ThreadPoolExecutor(a.jobs) as ex:
        for mut, res in ex.map(lambda j: try_one(*j), jobs):
            matrix.setdefault(mut, {}).update(res)
            caught = [c for c, r in res.items() if isinstance(r, dict) and r["rc"] == 1 and r["violations"] > 0]
            print(mut, "caught by", caught or "NOTHING", {c: r for c, r in res.items() if c not in caught}, flush=True)
            json.dump(matrix, open(path, "w"), indent=1, sort_keys=True)
    return 0


if __name__ == "__main__":
    sys.exit(main())
