#!/bin/bash
# run every registered quick check once (VERIF_SEED optional), print one line each
cd /verif
for p in $(python3 -c "import json;print(' '.join(c['property_id'] for c in json.load(open('MANIFEST.json'))['checks']))"); do
  t0=$(date +%s)
  out=$(bin/verif check $p --tier quick 2>&1); rc=$?
  t1=$(date +%s)
  echo "$p rc=$rc $((t1-t0))s :: $(echo "$out" | grep -c '^VIOLATION') violations :: $(echo "$out" | tail -1 | cut -c1-200)"
done
