import argparse
import os
import shutil
import sys

from . import check as CK
from . import tlc


def _clean_work():
    shutil.rmtree(tlc.WORK, ignore_errors=True)
    os.makedirs(tlc.WORK, exist_ok=True)


REGISTRY = {
    "C01": ("harness.checks.solverprops", "run"),
    "C03": ("harness.checks.solverprops", "run"),
    "C04": ("harness.checks.solverprops", "run"),
    "C17": ("harness.checks.solverprops", "run"),
    "C07": ("harness.checks.pen", "run"),
    "C08": ("harness.checks.pen", "run"),
    "C06": ("harness.checks.dat", "run"),
    "C09": ("harness.checks.dat", "run"),
    "C13": ("harness.checks.matrix", "run"),
    "C05": ("harness.checks.warm", "run"),
    "C19": ("harness.checks.degen", "run"),
    "C20": ("harness.checks.boundsck", "run"),
    "C10": ("harness.checks.storage", "run"),
    "C11": ("harness.checks.estim", "run"),
    "C12": ("harness.checks.classif", "run"),
    "C18": ("harness.checks.purity", "run"),
    "C02": ("harness.checks.relations", "run"),
    "C14": ("harness.checks.relations", "run"),
    "C15": ("harness.checks.relations", "run"),
    "C16": ("harness.checks.relations", "run"),
}


def main():
    ap = argparse.ArgumentParser(prog="verif")
    sub = ap.add_subparsers(dest="cmd", required=True)
    c = sub.add_parser("check")
    c.add_argument("prop")
    c.add_argument("--tier", default=os.environ.get("VERIF_TIER", "quick"),
                   choices=["quick", "thorough"])
    r = sub.add_parser("replay")
    r.add_argument("path")
    sub.add_parser("selftest")
    sub.add_parser("setup")
    a = ap.parse_args()
    seed = int(os.environ.get("VERIF_SEED", "1"))
    if a.cmd == "setup":
        from . import setup as S
        sys.exit(S.main())
    if a.cmd == "check":
        import importlib
        if a.prop not in REGISTRY:
            print(f"unknown property {a.prop}")
            sys.exit(2)
        # a private scratch directory per invocation: the same check may run several times side by side (quick and
        # thorough, several seeds, trials on seeded changes) without one run deleting the other's TLC state files
        import atexit
        import time
        base = os.environ.get("VERIF_WORK") or os.path.join(CK.VERIF, ".work")
        os.makedirs(base, exist_ok=True)
        for d in os.listdir(base):                     # leftovers of killed runs (older than 12 h)
            q = os.path.join(base, d)
            try:
                if os.path.isdir(q) and time.time() - os.path.getmtime(q) > 12 * 3600:
                    shutil.rmtree(q, ignore_errors=True)
            except OSError:
                pass
        os.environ["VERIF_WORK"] = os.path.join(base, f"{a.prop}-{a.tier}-{os.getpid()}")
        tlc.WORK = os.environ["VERIF_WORK"]
        _clean_work()
        main_pid = os.getpid()
        atexit.register(lambda: os.getpid() == main_pid and shutil.rmtree(tlc.WORK, ignore_errors=True))
        mod, fn = REGISTRY[a.prop]
        f = getattr(importlib.import_module(mod), fn)
        CK.main_wrapper(lambda: f(a.prop, a.tier, seed))
    if a.cmd == "replay":
        from . import replay as R
        sys.exit(R.main(a.path))
    if a.cmd == "selftest":
        from . import selftest as ST
        sys.exit(ST.main())


if __name__ == "__main__":
    main()
