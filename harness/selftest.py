"""`verif selftest`: the specification must REJECT corrupted observations (guidance: "a spec nothing
binds to the code" / vacuity). For every judge, take observations that pass, corrupt one field at a
time, and require exactly the clauses that depend on it to fire. Also re-checks that the negative
design configurations still produce their counterexamples. Exit 0 = all corruptions detected,
2 = the machinery accepts a corrupted observation (machinery failure)."""
import copy
import json
import os
import sys

from . import monitor, rel, tlc


def _good_solver_trace():
    ev = [
        dict(e="init", dig=1, obj=10.0, cons=1, feas=1, fin=1),
        dict(e="outer", t=0, crit=1.0, viol=1.0, vb=1e-4, dig=1, cons=1, obj=10.0, obj_lb=10.0 - 1e-9, feas=1, fin=1),
        dict(e="ws", t=0, ws=[0, 1]),
        dict(e="epoch", t=0, k=0, dig=2, obj=8.0, obj_lb=8.0 - 1e-9, bobj=8.0, bobj_lb=8.0 - 1e-9, cons=1, feas=1, fin=1),
        dict(e="aa", t=0, k=0, ext=0, dig=2, obj=8.0, obj_lb=8.0 - 1e-9, bobj=8.0, bobj_lb=8.0 - 1e-9, cons=1, feas=1, fin=1),
        dict(e="epoch", t=0, k=1, dig=3, obj=7.0, obj_lb=7.0 - 1e-9, bobj=7.0, bobj_lb=7.0 - 1e-9, cons=1, feas=1, fin=1),
        dict(e="aa", t=0, k=1, ext=1, dig=4, obj=6.0, obj_lb=6.0 - 1e-9, bobj=6.0, bobj_lb=6.0 - 1e-9, cons=1, feas=1, fin=1),
        dict(e="record", t=0, val=6.0, obj=6.0, obj_lo=6.0 - 1e-6, obj_hi=6.0 + 1e-6, dig=4),
        dict(e="outer", t=1, crit=5e-5, viol=5e-5, vb=1e-4, dig=4, cons=1, obj=6.0, obj_lb=6.0 - 1e-9, feas=1, fin=1),
        dict(e="return", crit=5e-5, tol=1e-4, nobj=1, zc=1, zc0=1, zcs=1, objs=[6.0], dig=4, viol=5e-5, vb=1e-4, viol_lo=4.9e-5,
             viol_hi=5.1e-5, obj=6.0, obj_lb=6.0 - 1e-9, obj_lo=6.0 - 1e-6, obj_hi=6.0 + 1e-6, same_buf=1, cons_buf=1,
             feas=1, fin=1),
    ]
    return dict(id=1, tol=1e-4, descent=1, cert=1, critval=1, haswouter=1, events=ev)


SOLVER_CORRUPTIONS = [
    ("certificate: true violation above the bound", lambda t: t["events"][-1].update(viol=1.0, viol_lo=0.9, viol_hi=1.1),
     {"cert", "crit_value"}),
    ("descent: objective rises at an epoch", lambda t: t["events"][5].update(obj=9.0, obj_lb=9.0 - 1e-9), {"descent"}),
    ("accepted extrapolation increases the objective", lambda t: t["events"][6].update(obj=7.5, obj_lb=7.5 - 1e-9,
                                                                                         bobj=7.5, bobj_lb=7.5 - 1e-9),
     {"accept_safe", "accept_guard", "descent"}),
    ("infeasible iterate", lambda t: t["events"][3].update(feas=0), {"feasible"}),
    ("non-finite return", lambda t: t["events"][-1].update(fin=0), {"finite"}),
    ("history entry is not the objective", lambda t: t["events"][7].update(val=6.5), {"hist_value", "hist_ret"}),
    ("history has an extra entry", lambda t: t["events"][-1].update(nobj=2, objs=[6.0, 0.0]), {"hist_len", "hist_last"}),
    ("dropped record event", lambda t: t["events"].pop(7), {"hist_len"}),
    ("stopping value of another iterate", lambda t: t["events"][-1].update(dig=9), {"crit_of_returned"}),
    ("caller's buffer inconsistent", lambda t: t["events"][-1].update(cons_buf=0), {"buffer"}),
    ("non-zero coefficient on a zero column", lambda t: t["events"][-1].update(zc=0), {"zero_col_zero"}),
    ("warm start on a null column, converged but not zeroed", lambda t: t["events"][-1].update(zc=0, zc0=0),
     {"zero_col_zero"}),
    ("unknown event", lambda t: t["events"].insert(3, dict(e="bogus")), {"skeleton"}),
]


def main():
    failures = []
    # ---- SolverTrace
    base = _good_solver_trace()
    traces = [base]
    for i, (name, fn, _exp) in enumerate(SOLVER_CORRUPTIONS):
        t = copy.deepcopy(base)
        t["id"] = i + 2
        fn(t)
        traces.append(t)
    v = monitor.validate(traces)
    if v.bad(1):
        failures.append(f"SolverTrace rejects the good trace: {v.bad(1)}")
    for i, (name, _fn, exp) in enumerate(SOLVER_CORRUPTIONS):
        got = {c for c, _ in v.bad(i + 2)}
        if not exp <= got:
            failures.append(f"SolverTrace misses '{name}': expected {sorted(exp)}, got {sorted(got)}")
        print(f"  SolverTrace  {name:55s} -> {sorted(got)}")
    # ---- RelTrace
    f = rel.Facts(1, {})
    f.le("a", 1.0, 2.0)
    f.band("b", 1.0, 0.5, 1.5)
    f.flag("c", True)
    f.eq("d", 0.1, 0.1)
    g = rel.Facts(2, {})
    g.le("a", 3.0, 2.0)
    g.band("b", 2.0, 0.5, 1.5)
    g.flag("c", False)
    g.eq("d", 0.1, 0.1000000001)
    g.le("vac", 3.0, 2.0, when=False)
    vr = rel.judge([f.trace(), g.trace()])
    if vr.bad(1):
        failures.append(f"RelTrace rejects good facts: {vr.bad(1)}")
    got = {c for c, _ in vr.bad(2)}
    if got != {"a", "b", "c", "d"}:
        failures.append(f"RelTrace verdict on corrupted facts: {sorted(got)}")
    print(f"  RelTrace     corrupted facts -> {sorted(got)}")
    # ---- PenVec / DataVec: corrupt the logged output of exact vectors
    from .checks import penvec, datavec
    q = penvec.q
    from fractions import Fraction as F
    base_v = dict(kind="MCPenalty", al=q(F(1)), ga=q(F(3)), lr=q(F(1)), wt=q(F(1)), pos=0)
    vecs = [dict(base_v, id=1, op="prox", x=q(F(2)), s=q(F(1)), out={"k": "fin", "v": q(F(3, 2))}),       # correct
            dict(base_v, id=2, op="prox", x=q(F(2)), s=q(F(1)), out={"k": "fin", "v": q(F(1))}),          # soft-threshold only
            dict(base_v, id=3, op="dist", w=q(F(1)), g=q(F(0)), out={"k": "fin", "v": q(F(2, 3))}),       # |0 + 1 - 1/3|
            dict(base_v, id=4, op="dist", w=q(F(1)), g=q(F(0)), out={"k": "fin", "v": q(F(1))}),          # forgot -w/gamma
            dict(base_v, id=5, op="value", w=q(F(1)), out={"k": "fin", "v": q(F(5, 6))}),
            dict(base_v, id=6, op="value", w=q(F(1)), out={"k": "fin", "v": q(F(1))})]
    ver, _ = penvec.judge(vecs)
    exp = {1: [], 2: ["prox_min"], 3: [], 4: ["dist_eq"], 5: [], 6: ["value_eq"]}
    for k, e in exp.items():
        if ver[k] != e:
            failures.append(f"PenVec vector {k}: expected {e}, got {ver[k]}")
    print(f"  PenVec       {ver}")
    dv = dict(kind="Logistic", y=[q(F(1)), q(F(-1)), q(F(1))], z=[q(F(1)), q(F(0)), q(F(-2))], sw=[q(F(1))] * 3,
              delta=q(F(1)), col=[[0, 1]] * 3)
    dvecs = [dict(dv, id=1, op="raw_grad", i=1, out={"k": "fin", "v": q(F(-1, 9))}),      # -1/(1+2)/3
             dict(dv, id=2, op="raw_grad", i=1, out={"k": "fin", "v": q(F(-1, 3))}),
             dict(dv, id=3, op="raw_hess", i=2, out={"k": "fin", "v": q(F(1, 12))}),      # 1/4/3
             dict(dv, id=4, op="raw_hess", i=2, out={"k": "fin", "v": q(F(1, 4))})]
    ver, _ = datavec.judge(dvecs)
    exp = {1: [], 2: ["grad_eq"], 3: [], 4: ["hess_eq"]}
    for k, e in exp.items():
        if ver[k] != e:
            failures.append(f"DataVec vector {k}: expected {e}, got {ver[k]}")
    print(f"  DataVec      {ver}")
    # ---- negative design configurations must still fail (vacuity of the design models)
    for cfg, spec, inv in (("Bounds_neg_linesearch.cfg", "Bounds", "InBounds"),
                           ("Bounds_neg_grouplipschitz.cfg", "Bounds", "InBounds")):
        r = tlc.run(spec, cfg, timeout=300)
        if inv not in r["violated"]:
            failures.append(f"{cfg}: expected {inv} to be violated")
        print(f"  {spec:12s} {cfg} -> violated {r['violated']}")
    r = tlc.run("Reweight", "Reweight_pinned.cfg", timeout=300)
    if "Majorises" not in r["violated"]:
        failures.append("Reweight[DerivKind = wrt_signed] must violate Majorises")
    print(f"  Reweight     signed derivative (LogSumPenalty at the pinned commit) -> violated {r['violated']}")
    for neg, inv in (("PathCore_neg_view.cfg", "StoredStable"), ("PathCore_neg_intercept.cfg", "FitConsistent")):
        r = tlc.run("PathCore", neg, timeout=300)
        if inv not in r["violated"]:
            failures.append(f"{neg} must violate {inv}")
        print(f"  PathCore     {neg} -> violated {r['violated']}")
    from .checks.purity import SOLVER_OBJECT_NEG, APALACHE_STEPS, judge_object_traces
    # SolverObjectTrace: a faithful trace is accepted; a history of 6 entries for 3 iterations, a changed constructor
    # parameter and a stale result after a refill are each rejected at the corrupted line
    ots = json.load(open(os.path.join(tlc.VERIF, "scenarios", "solver_object_selftest.json")))["traces"]
    got, _r = judge_object_traces(ots)
    want = {1: (True, 5), 2: (False, 2), 3: (False, 1), 4: (False, 3)}
    for k, (ok, reached) in want.items():
        if (got[k][0], got[k][1]) != (ok, reached):
            failures.append(f"SolverObjectTrace selftest trace {k}: got {got[k]}, expected accepted={ok} at line {reached}")
    print(f"  SolverObjectTrace hand-made traces -> {got}")
    for init, inv, length, want in APALACHE_STEPS:
        try:
            r = tlc.apalache("MC_SolverObject", init, inv, length)
            if r["outcome"] != want:
                failures.append(f"Apalache MC_SolverObject {init}/{inv}/{length}: {r['outcome']}, expected {want}")
            print(f"  SolverObject apalache --init={init} --inv={inv} --length={length} -> {r['outcome']} (expected {want})")
        except tlc.TLCError as e:
            failures.append(f"Apalache MC_SolverObject {init}/{inv}: {str(e)[:300]}")
    for neg, inv in SOLVER_OBJECT_NEG:
        r = tlc.run("SolverObject", neg, timeout=300)
        if inv not in r["violated"]:
            failures.append(f"{neg} must violate {inv}")
        print(f"  SolverObject {neg} -> violated {r['violated']}")
    for model, inv in (("ProxNewton", "CertSound"), ("AndersonCD", "Feasible"), ("GroupBCD", "HistFaithful"),
                       ("MultiTaskBCD", "CertSound")):
        base_cfg = open(tlc.SPECS + f"/mc/CDCore_{model}_pinned.cfg").read().replace("MaxIter = 2", "MaxIter = 1")
        r = tlc.run("CDCore", cfg_text=base_cfg + f"\nINVARIANT {inv}\n", timeout=900)
        if inv not in r["violated"]:
            failures.append(f"CDCore[{model}, pinned constants] must violate {inv}")
        print(f"  CDCore       {model} pinned constants -> violated {r['violated']}")
    if failures:
        for m in failures:
            print("SELFTEST-FAILURE:", m)
        return 2
    print("selftest: every corruption was detected by the clause(s) that depend on it")
    return 0


if __name__ == "__main__":
    sys.exit(main())
