"""Checks decided on traces of real solver runs: C01 (certificate), C03 (descent), C04 (feasible,
finite), C17 (diagnostics). One engine, four registrations.

  design model   specs/solvers/CDCore.tla  (TLC exhaustive, per-solver constants)  -> expectations,
                 counterexamples become directed scenarios (sentinels)
  scenarios      specs/api/SolverScenario.tla (TLC -simulate, seeded) + sentinels
  real runs      harness/scen.py under the tracer (hooks, oracle)
  verdict        specs/trace/SolverTrace.tla (TLC, batch monitor): one clause set per trace
"""
import json
import os
import sys
import time

from .. import check as CK
from .. import monitor, pool, tlc

CLAUSES = {
    "C01": {"cert", "cert_outer"},
    "C03": {"descent", "accept_safe", "accept_guard", "start"},
    "C04": {"feasible", "finite"},
    "C17": {"hist_len", "hist_value", "hist_ret", "hist_last", "crit_of_returned", "crit_value"},
}
# CDCore properties relevant to each check, and the solver models to run
DESIGN_PROPS = {
    "C01": ["CertSound", "Consistent"],
    "C03": ["Descent"],
    "C04": ["Feasible"],
    "C17": ["HistFaithful", "CritOfReturned"],
}
MODELS = ["AndersonCD", "GroupBCD", "MultiTaskBCD", "ProxNewton", "GramCD"]
N_SCEN = {"quick": 160, "thorough": 2000}
N_SCEN_PROP = {"C01": {"quick": 260, "thorough": 3000}}


def sentinels(prop):
    path = os.path.join(CK.VERIF, "scenarios", "sentinels.json")
    if not os.path.exists(path):
        return []
    out = []
    for s in json.load(open(path)):
        if prop in s["properties"]:
            out.append(s)
    return out


# (model, property) pairs that the PINNED-tree constants must still violate: vacuity guard of the design model
PINNED_EXPECT = {("ProxNewton", "CertSound"), ("GroupBCD", "CertSound"), ("GroupBCD", "HistFaithful"),
                 ("MultiTaskBCD", "CertSound"), ("MultiTaskBCD", "HistFaithful"), ("ProxNewton", "HistFaithful"),
                 ("AndersonCD", "Feasible"), ("AndersonCD", "Descent")}


def design_stage(ck, prop, tier):
    """Run CDCore for every solver model. `asis` constants describe the code as it is now: a violation is
    reported as a note (and becomes a sentinel), never as a property violation by itself. `pinned`
    constants describe the pinned tree: the pairs of PINNED_EXPECT must still be violated (else the model
    has become vacuous: machinery failure)."""
    jobs = []
    labels = []
    for m in MODELS:
        for variant in ("asis", "pinned"):
            name = f"CDCore_{m}_{variant}"
            cfgp = os.path.join(tlc.SPECS, "mc", name + ".cfg")
            if not os.path.exists(cfgp):
                continue
            base = open(cfgp).read()
            if tier == "quick" or variant == "pinned":
                base = base.replace("MaxIter = 2", "MaxIter = 1")
            for pr in DESIGN_PROPS[prop]:
                if variant == "pinned" and (m, pr) not in PINNED_EXPECT:
                    continue
                kind = "PROPERTY" if pr == "Descent" else "INVARIANT"
                jobs.append(dict(spec="CDCore", cfg_text=base + f"\n{kind} {pr}\n", timeout=1500,
                                 tag=name))
                labels.append((m, variant, pr))
    res = tlc.run_many(jobs, parallel=6)
    for (m, variant, pr), r in zip(labels, res):
        ck.add_tlc(r, name=f"CDCore[{m},{variant}] |= {pr}", kind="design")
        if variant == "pinned" and not r["violated"]:
            ck.machinery(f"CDCore[{m}] with the pinned-tree constants no longer violates {pr}: vacuous model")
        if variant == "asis" and r["violated"]:
            steps = [a.split(" line")[0].strip("<") for a, _ in r["trace"]]
            ck.cov["notes"].append(f"as-is model CDCore[{m}] admits a violation of {pr}: "
                                   + " -> ".join(steps))


DENSITY = 5          # simulate DENSITY * n behaviours, keep those on the compositions of the first n


def gen_scenarios(prop, n, seed, density=DENSITY):
    """n random scenarios, then every further scenario (out of density * n) whose (solver, datafit, penalty) already
    occurs among them: the numba compilation of a composition is what costs, further runs of it are nearly free, and
    knobs such as storage x intercept x strategy x budget x warm start get covered several times per composition."""
    cfg = f'SPECIFICATION Spec\nCONSTANT Focus = "{prop}"\nINVARIANT WellFormed\nCHECK_DEADLOCK FALSE\n'
    r = tlc.run("SolverScenario", cfg_text=cfg, simulate=f"num={n * density}", depth=20, seed=seed,
                timeout=900)
    allsc = r["printed"]
    base = allsc[:n]

    def comp(sc):
        return (sc["solver"], sc["datafit"], sc["penalty"])
    comps = {comp(sc) for sc in base}
    cap = max(8, (density * n) // max(1, len(comps)))
    cnt = {}
    out, seen = [], set()
    for sc in allsc:
        k = comp(sc)
        sig = json.dumps(sc, sort_keys=True)
        if k not in comps or sig in seen or cnt.get(k, 0) >= cap:
            continue
        seen.add(sig)
        cnt[k] = cnt.get(k, 0) + 1
        out.append(sc)
    return out, r


def run(prop, tier, seed):
    ck = CK.Check(prop, tier, seed)
    ck.cov["rule"] = (
        "scenario = one behaviour of specs/api/SolverScenario.tla (solver, datafit, penalty, storage, "
        "intercept, strategy, p0, budgets around the extrapolation period, tolerance, warm-start shape, "
        "weights, data class, alpha fraction) drawn by tlc -simulate with VERIF_SEED, plus the permanent "
        "sentinels; numeric data from (seed, scenario). Distinct = distinct scenario tuples; non-trivial = "
        "the run returned (did not raise), performed at least one epoch, and at least one clause of this "
        "property had a true antecedent.")
    ck.cov["trusted_base"] = [
        "harness/oracle (numpy mirror of specs/math: documented losses, piece-table penalties)",
        "rank encoding harness/ranks.py (order-preserving)", "TLC 1.8", "numpy float64 arithmetic"]
    ck.assumptions = [
        "tolerances of DESIGN.md 5.2 (cert: tol(1+1e-6)+1e-7*scale; descent slack 1e-10 rel + capped "
        "buffer-inconsistency term; ~: 1e-9*scale + 1e-6 rel)",
        "exhaustiveness only within the constants of each TLC config; real-float coverage is sampling "
        "driven by TLC-generated structure"]
    try:
        design_stage(ck, prop, tier)
        scs, r = gen_scenarios(prop, N_SCEN_PROP.get(prop, N_SCEN)[tier], seed)
        ck.add_tlc(dict(distinct=len(scs), states=len(scs), wall_s=r["wall_s"]),
                   name=f"SolverScenario[Focus={prop}] -simulate", kind="scenario generator")
    except tlc.TLCError as e:
        ck.machinery(str(e)[:2000])
        return ck.finish()
    items = []
    tid = 0
    for sc in scs:
        tid += 1
        items.append((sc, seed, tid))
    for s in sentinels(prop):
        for k in range(s.get("seeds", 20) if tier == "quick" else 3 * s.get("seeds", 20)):
            tid += 1
            items.append((dict(s["scenario"], sentinel=s["name"]), seed * 1000 + k, tid))
    traces, errors = pool.map_grouped(
        "harness.scen", "run", items,
        key=lambda it: (it[0]["solver"], it[0]["datafit"], it[0]["penalty"]), chunk=30)
    for it, msg, tb in errors:
        ck.machinery(f"driver failed on {it[0] if it else None}: {msg}\n{tb}")
    if errors:
        return ck.finish()
    try:
        v = monitor.validate(traces, coverage=True)
    except tlc.TLCError as e:
        ck.machinery(str(e)[:2000])
        return ck.finish()
    ck.add_verdicts(v)
    mine = CLAUSES[prop]
    bycatch = {}
    for tr in traces:
        bad = v.bad(tr["id"])
        names = {c for c, _ in bad}
        meta = tr["meta"]
        raised = "raised" in names
        n_epoch = sum(1 for e in tr["events"] if e["e"] == "epoch")
        sig = json.dumps({k: meta[k] for k in sorted(meta) if k not in ("seed", "exc")},
                         sort_keys=True)
        stopped = (not raised) and tr["events"][-1]["e"] == "return" and \
            tr["events"][-1]["crit"] <= tr["tol"]
        if prop == "C01":
            nontrivial = stopped and tr.get("cert") == 1
        elif prop == "C03":
            nontrivial = (not raised) and n_epoch >= 1 and tr.get("descent") == 1
        elif prop == "C04":
            nontrivial = (not raised) and n_epoch >= 1
        else:
            nontrivial = (not raised) and tr["events"][-1].get("nobj", 0) >= 1
        ck.count(sig, nontrivial)
        if not raised:
            ck.cov["traces_validated_against_impl"] += 1
        for c in mine:
            ck.clause(c, c not in names)
        for c in names - mine:
            bycatch[c] = bycatch.get(c, 0) + 1
        hit = sorted(names & mine)
        if hit:
            pos = {c: p for c, p in bad if c in mine}
            for c in hit:
                m2 = dict(meta, clause=c)
                m2.update(_explain(tr, pos[c], c))
                ck.violation(c, m2, dict(kind="solver_scenario", property=prop, clause=c,
                                         scenario={k: meta[k] for k in meta if k not in ("seed", "exc")},
                                         seed=meta["seed"], position=pos[c],
                                         event=_ev(tr, pos[c])))
        if len(ck.cov["samples"]) < 4 and not raised and nontrivial:
            ck.sample(dict(scenario={k: meta[k] for k in meta if k != "exc"},
                           n_events=len(tr["events"]), verdict=bad,
                           first_events=[_short(e) for e in tr["events"][:5]],
                           last_event=_short(tr["events"][-1])))
    ck.cov["by_catch_other_clauses"] = bycatch
    if prop == "C01":
        # the stopping values path() REPORTS are certificates too: stop_crits[t] <= tol must certify coefs[..., t] for
        # alphas[t] (every path is a sequence of warm-started solves: "every starting point")
        _path_certificates(ck, seed)
    if prop == "C17":
        # last sentence of C17: an estimator's n_iter_ is the number of outer iterations of the solve inside fit()
        from . import niter
        niter.run_binding(ck, pool, tier, seed)
    if prop == "C03":
        # exact replay of the design model's arithmetic (spec -> code); drift is binding information
        from . import micro
        # the last sentence of C03: iterative reweighting (Reweight.tla design model + real runs)
        from . import reweight
        reweight.run_binding(ck, pool, tier, seed)
        nd = micro.run_binding(ck, pool)
        if nd:
            print(f"DRIFT: MicroCD exact replay disagrees with the real AndersonCD on {nd} problem(s) "
                  "(see evidence coverage.binding) -- the exact design model no longer describes the code")
    return ck.finish()


def _path_certificates(ck, seed):
    from . import warm
    from .. import rel
    hists = [h for h in warm.SENTINEL_HISTORIES if h["entry"].endswith(".path")]
    items = [(h, seed, 500 + i) for i, h in enumerate(hists)]
    res, errs = pool.map_grouped("harness.checks.warm", "run_history", items, key=lambda it: it[0]["entry"], chunk=4)
    for it, msg, tb in errs:
        ck.machinery(f"path history driver failed on {it[0] if it else None}: {msg}\n{tb}")
    if errs:
        return
    pfacts = [t["_facts"] for r_ in res for t in r_ if "_facts" in t]
    traces = [t for r_ in res for t in r_ if "_facts" not in t]
    try:
        v = monitor.validate(traces)
        vp = rel.judge(pfacts) if pfacts else None
    except tlc.TLCError as e:
        ck.machinery(str(e)[:2000])
        return
    ck.add_verdicts(v)
    for tr in traces:
        names = {c for c, _ in v.bad(tr["id"])} & {"cert", "cert_outer"}
        meta = tr["meta"]
        if str(meta.get("driver_exc") or "").startswith("HARNESS-BUG"):
            ck.machinery(f"path history driver bug: {meta['driver_exc']}")
        ck.cov["traces_validated_against_impl"] += 1
        for c in ("cert", "cert_outer"):
            ck.clause(c, c not in names)
        for c in sorted(names):
            pos = {cc: p for cc, p in v.bad(tr["id"])}[c]
            m2 = dict({k: meta.get(k) for k in meta if k != "hist"}, clause=c, via="path")
            m2.update(_explain(tr, pos, c))
            ck.violation(c, m2, dict(kind="warm_history", replay_module="harness.checks.warm", property="C01", clause=c,
                                     history=dict(entry=meta.get("entry"), fit_intercept=meta.get("fit_intercept"),
                                                  hist=meta.get("hist")), scenario=None, seed=meta.get("seed", seed),
                                     hid=meta.get("hid"), step=meta.get("step"), event=_ev(tr, pos)))
    if vp is not None:
        ck.add_verdicts(vp)
        mine = {"path_cert", "path_coefs_are_the_step_solutions", "path_len"}
        for t in pfacts:
            names = {c for c, _ in vp.bad(t["id"])} & mine
            meta = t["meta"]
            ck.count("path:" + json.dumps({k: meta.get(k) for k in ("entry", "fit_intercept", "hist")}, sort_keys=True,
                                          default=str), True)
            ck.cov["traces_validated_against_impl"] += 1
            for e in t["events"]:
                if e["when"] and e["c"] in mine:
                    ck.clause(e["c"], e["c"] not in names)
            for c in sorted(names):
                ck.violation(c, dict({k: meta.get(k) for k in ("entry", "fit_intercept", "storage", "hid", "seed")},
                                     clause=c, hist=meta.get("hist"), via="path"),
                             dict(kind="warm_history", replay_module="harness.checks.warm", property="C01", clause=c,
                                  history=dict(entry=meta.get("entry"), fit_intercept=meta.get("fit_intercept"),
                                               hist=meta.get("hist")), scenario=None, seed=meta.get("seed", seed),
                                  hid=meta.get("hid"), step=None, event=None))
    ck.cov["binding"].append(dict(check="certificates reported by path(): every step traced, stop_crits[t] against "
                                        "coefs[..., t] for alphas[t]", histories=len(hists)))


def _explain(tr, pos, clause):
    """Quantitative facts about a failing event, used to identify known findings narrowly."""
    if not (1 <= pos <= len(tr["events"])):
        return {}
    e = tr["events"][pos - 1]
    out = {}
    if clause in ("descent", "accept_safe", "start") and "obj" in e:
        prev = None
        for q in reversed(tr["events"][:pos - 1]):
            if "obj" in q and q["obj"] is not None:
                prev = q["obj"]
                break
        try:
            inc = (e["obj"] - prev) / max(1.0, abs(prev))
            out["increase_rel"] = inc
            out["increase_band"] = "<1e-6" if inc < 1e-6 else ">=1e-6"
        except Exception:  # noqa: BLE001
            pass
    if clause in ("cert", "cert_outer", "crit_value") and "vfeat" in e:
        vb, crit, vfeat, vint = e.get("vb"), e.get("crit"), e.get("vfeat"), e.get("vint")
        try:
            # the violation is entirely the intercept gradient, within the factor 4 = 1/L0 of Logistic
            out["explained_by_intercept_factor4"] = bool(
                vfeat <= max(vb, crit * (1 + 1e-6)) and vint <= 4 * max(vb, crit) * (1 + 1e-6)
                and vint / 4 <= crit * (1 + 1e-3) + 1e-12)
            r = crit / e["viol"] if e["viol"] > 0 else float("inf")
            out["crit_over_viol"] = r
            out["ratio_band"] = "<=4x" if 0.25 <= r <= 4.0 else ("<=64x" if 1 / 64 <= r <= 64.0 else ">64x")
        except Exception:  # noqa: BLE001
            pass
    return out


def _short(e):
    return {k: (round(v, 8) if isinstance(v, float) else v) for k, v in e.items()
            if k not in ("objs", "ws")}


def _ev(tr, pos):
    if 1 <= pos <= len(tr["events"]):
        return _short(tr["events"][pos - 1])
    return None
