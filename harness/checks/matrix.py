"""C13: every composition is refused with an explanation or solved.

  design   specs/api/Validate.tla over attribute tables introspected from the working tree:
           expected _validate verdict per cell (binding: compared with the real one = drift) and the
           set Missing of methods _solve will call but the objects lack (predicted late failures).
  real     every selected cell runs in an isolated worker (death / hang is an observation);
           accepted cells run under the tracer.
  verdict  RelTrace facts (refusal_explained, no_internal_error, alive, terminates) and the
           SolverTrace monitor (finite, cert) -- all judged by TLC.
"""
import json
import os
import tempfile

import numpy as np

from .. import cells as CL
from .. import check as CK
from .. import monitor, pool, rel, tlc

N_ACC = {"quick": 120, "thorough": 100000}
N_REF = {"quick": 250, "thorough": 100000}


def _introspect(_x):
    return CL.introspect()


def _real_validate(cells, seed):
    return CL.real_validate(cells, seed)


def design(ck, cells, has):
    os.makedirs(tlc.WORK, exist_ok=True)
    fd, path = tempfile.mkstemp(prefix="validate_", suffix=".json", dir=tlc.WORK)
    with os.fdopen(fd, "w") as f:
        json.dump({"has": has, "cells": cells}, f)
    r = tlc.run("Validate", cfg_text="SPECIFICATION Spec\nCHECK_DEADLOCK FALSE\n",
                env={"VALIDATE_FILE": path}, timeout=1200)
    ck.add_tlc(r, name="Validate (protocol over introspected attribute tables)", kind="design")
    spec = {}
    for pr in r["printed"]:
        if isinstance(pr, dict) and pr.get("v") == 3:
            spec[pr["id"]] = (pr["verdict"], sorted(pr["missing"]))
    os.unlink(path)
    if len(spec) != len(cells):
        raise tlc.TLCError(f"Validate emitted {len(spec)} verdicts for {len(cells)} cells")
    return spec


def run(prop, tier, seed):
    ck = CK.Check(prop, tier, seed)
    ck.cov["rule"] = (
        "cell = (solver, strategy, datafit initialised on the data, penalty, storage, fit_intercept) on a "
        "12x6 problem with targets adapted to the datafit; all cells are enumerated by Validate.tla; the "
        "real _validate verdict is taken for ALL cells; executed: every cell whose model-predicted Missing "
        "set is non-empty, plus a seeded stratified sample (every solver / datafit / penalty / storage at "
        "least once) in the quick tier, all cells in the thorough tier. Distinct = distinct cells; "
        "non-trivial = accepted by _validate and executed, or refused with its message judged.")
    ck.cov["trusted_base"] = ["harness/oracle for cert", "the vocabulary/regex deciding that a message names a "
                              "missing method (harness/cells.py: explained)", "TLC 1.8"]
    ck.assumptions = ["one dataset per datafit family (seeded); tolerance 1e-5*scale; default budgets"]
    cells = CL.all_cells()
    res, errs = pool.map_grouped("harness.checks.matrix", "_introspect", [(0,)], key=lambda it: 0)
    if errs:
        ck.machinery(f"introspection failed: {errs[0][1]}\n{errs[0][2]}")
        return ck.finish()
    has = res[0]
    try:
        spec = design(ck, cells, has)
    except tlc.TLCError as e:
        ck.machinery(str(e)[:2000])
        return ck.finish()
    res, errs = pool.map_grouped("harness.checks.matrix", "_real_validate", [(cells, seed)], key=lambda it: 0)
    if errs:
        ck.machinery(f"real_validate failed: {errs[0][1]}\n{errs[0][2]}")
        return ck.finish()
    real = {int(k): v for k, v in res[0].items()}
    drift = [c["id"] for c in cells if spec[c["id"]][0] != real[c["id"]][0]]
    ck.cov["binding"].append(dict(check="Validate.tla verdict == real _validate verdict (type, order)",
                                  cells=len(cells), mismatches=len(drift),
                                  examples=[dict(cell=cells[i - 1], spec=spec[i][0], real=real[i][0])
                                            for i in drift[:5]]))
    accepted = [c for c in cells if real[c["id"]][0] == "accept"]
    refused = [c for c in cells if real[c["id"]][0] != "accept"]
    predicted = [c for c in accepted if spec[c["id"]][0] == "accept" and spec[c["id"]][1]]
    ck.cov["notes"].append(f"{len(accepted)} of {len(cells)} cells accepted by _validate; model predicts a "
                           f"missing method in {len(predicted)} accepted cells")
    rng = np.random.default_rng(seed)

    def stratified(pop, n):
        if n >= len(pop):
            return list(pop)
        chosen = {}
        # every value of every field, then every (solver, penalty, intercept) and (solver, datafit, storage) class:
        # interactions between a solver and one other component are where compositions break
        for fields in (("s",), ("d",), ("p",), ("s", "p", "fi"), ("s", "d", "sp")):
            vals = sorted({tuple(c[f] for f in fields) for c in pop}, key=str)
            for v in vals:
                if any(tuple(c[f] for f in fields) == v for c in chosen.values()):
                    continue
                cand = [c for c in pop if tuple(c[f] for f in fields) == v]
                if cand:
                    c = cand[int(rng.integers(len(cand)))]
                    chosen[c["id"]] = c
        rest = [c for c in pop if c["id"] not in chosen]
        rng.shuffle(rest)
        for c in rest:
            if len(chosen) >= n:
                break
            chosen[c["id"]] = c
        return list(chosen.values())
    # one representative per (solver, strategy, missing-set signature, storage) of the predicted failures
    pred_sel = {}
    for c in predicted:
        k = (c["s"], c["ws"], tuple(spec[c["id"]][1]), c["sp"], c["d"] if tier == "thorough" else "")
        pred_sel.setdefault(k, c)
    run_acc = {c["id"]: c for c in stratified(accepted, N_ACC[tier])}
    if tier == "thorough":
        run_acc = {c["id"]: c for c in accepted}
    for c in pred_sel.values():
        run_acc[c["id"]] = c
    run_ref = stratified(refused, N_REF[tier])
    items = [(c, seed) for c in run_acc.values()]
    out = pool.map_isolated("harness.cells", "run_cell", items,
                            key=lambda it: (it[0]["s"], it[0]["d"], it[0]["p"]), chunk=8, timeout=240)
    facts, straces = [], []
    tid = 0
    meta_of = {}
    for idx, (c, _) in enumerate(items):
        st, val = out.get(idx, ("died", None))
        tid += 1
        meta = dict(solver=c["s"], strategy=c["ws"], datafit=c["d"], penalty=c["p"],
                    storage="csc" if c["sp"] else "dense", fit_intercept=bool(c["fi"]), cell=c["id"],
                    predicted_missing=spec[c["id"]][1])
        f = rel.Facts(tid, meta)
        f.flag("alive", st != "died")
        f.flag("terminates", st != "timeout")
        if st == "err":
            ck.machinery(f"cell runner crashed on {c}: {val}")
            continue
        if st == "ok":
            o = val
            meta.update(outcome=o["outcome"], exc_type=o["exc_type"], exc_msg=(o["exc_msg"] or "")[:160])
            f.flag("refusal_explained", o["explained"], when=o["outcome"] == "refused")
            f.flag("no_internal_error", o["explained"], when=o["outcome"] == "raised")
            f.flag("constructible", o["outcome"] != "construct_error")
            if o.get("fista_viol") is not None:
                f.le("fista_claim_near_stationary", o["fista_viol"], o["fista_bound"],
                     when=o["outcome"] == "solved" and o["stop_crit"] <= o["tol"])
            if o["trace"] is not None and o["outcome"] == "solved":
                t = o["trace"]
                t["id"] = tid
                t["meta"] = meta
                straces.append(t)
        else:
            meta.update(outcome=st)
        facts.append(f.trace())
        meta_of[tid] = meta
    for c in run_ref:
        tid += 1
        ty, msg = real[c["id"]]
        meta = dict(solver=c["s"], strategy=c["ws"], datafit=c["d"], penalty=c["p"],
                    storage="csc" if c["sp"] else "dense", fit_intercept=bool(c["fi"]), cell=c["id"],
                    outcome="refused", exc_type=ty, exc_msg=msg[:160])
        f = rel.Facts(tid, meta)

        def missing(name, c=c):
            if name not in CL.ATTRS:
                return False
            return (c["d"] == "None") or (name not in has[c["d"]]) or (name not in has[c["p"]])

        class _E(Exception):
            pass
        e = type(ty, (Exception,), {})(msg)
        f.flag("refusal_explained", CL.explained(e, missing))
        facts.append(f.trace())
        meta_of[tid] = meta
    try:
        v = rel.judge(facts)
        vs = monitor.validate(straces) if straces else None
    except tlc.TLCError as e:
        ck.machinery(str(e)[:2000])
        return ck.finish()
    ck.add_verdicts(v)
    if vs:
        ck.add_verdicts(vs)
    mine = {"alive", "terminates", "refusal_explained", "no_internal_error", "constructible",
            "fista_claim_near_stationary"}
    for t in facts:
        names = {c for c, _ in v.bad(t["id"])}
        meta = t["meta"]
        ck.count(json.dumps({k: meta[k] for k in ("solver", "strategy", "datafit", "penalty", "storage",
                                                  "fit_intercept")}, sort_keys=True), True)
        ck.cov["traces_validated_against_impl"] += 1
        for e in t["events"]:
            if e["when"]:
                ck.clause(e["c"], e["c"] not in names)
        for c in sorted(names & mine):
            ck.violation(c, dict(meta, clause=c), dict(kind="cell", replay_module="harness.checks.matrix",
                                                       property=prop, clause=c, meta=meta))
        if len(ck.cov["samples"]) < 5:
            ck.sample(dict(cell=meta, verdict=sorted(names)))
    for t in straces:
        names = {c for c, _ in vs.bad(t["id"])}
        meta = t["meta"]
        for c in ("finite", "cert"):
            ck.clause(c, c not in names)
        for c in sorted(names & {"finite", "cert"}):
            from . import solverprops
            pos = {cc: pp for cc, pp in vs.bad(t["id"])}[c]
            m2 = dict(meta, clause=c)
            m2.update(solverprops._explain(t, pos, c))          # quantitative signature (known findings are narrow)
            ck.violation(c, m2, dict(kind="cell", replay_module="harness.checks.matrix",
                                     property=prop, clause=c, meta=meta))
    return ck.finish()


def replay(rp):
    meta = rp["meta"]
    c = dict(id=meta["cell"], s=meta["solver"], ws=meta["strategy"], d=meta["datafit"], p=meta["penalty"],
             sp=meta["storage"] == "csc", fi=meta["fit_intercept"])
    seed = int(os.environ.get("VERIF_SEED", "1"))
    out = pool.map_isolated("harness.cells", "run_cell", [(c, seed)], key=lambda it: 0, timeout=240)
    st, o = out[0]
    print("cell:", c, "->", st, (o or {}).get("outcome"), (o or {}).get("exc_type"), (o or {}).get("exc_msg"))
    clause = rp["clause"]
    bad = False
    if clause == "alive":
        bad = st == "died"
    elif clause == "terminates":
        bad = st == "timeout"
    elif st == "ok":
        if clause == "refusal_explained":
            bad = o["outcome"] == "refused" and not o["explained"]
        elif clause == "no_internal_error":
            bad = o["outcome"] == "raised" and not o["explained"]
        elif clause in ("finite", "cert") and o["trace"] is not None and o["outcome"] == "solved":
            t = o["trace"]
            t["id"] = 1
            vs = monitor.validate([t])
            bad = any(cl == clause for cl, _ in vs.bad(1))
    if bad:
        print(f"REPRODUCED clause={clause} property={rp['property']}")
        return 1
    print("not reproduced on the current tree")
    return 0
