"""C10: results do not depend on how X is stored.

Scenarios (entry point x composition x container x dtype) are enumerated exhaustively by
specs/api/Storage.tla; each is executed and compared with the dense-Fortran-float64 run of the same
composition; the RelTrace monitor judges `same` and `refuse_explained`."""
import json
import warnings

import numpy as np

from .. import check as CK
from .. import gen, pool, rel, tlc
from .. import solve as SV

N, P = 40, 8
KEYWORDS = ("sparse", "csc", "csr", "coo", "format", "dtype", "float", "convert", "array", "dense")


def _explained(exc):
    ty, msg = exc
    low = msg.lower()
    if ty not in ("TypeError", "ValueError", "AttributeError"):
        return False
    if "nopython" in low or "numba" in low or "indptr" in low or "has no attribute" in low:
        return False
    return any(k in low for k in KEYWORDS)


def problem(comp, seed):
    rng = gen.rng_for(seed, "storage", comp)
    X = gen.design(rng, N, P, rho=0.3)
    X = X * (rng.random(X.shape) < 0.7)
    X = np.round(X * 4) / 4          # exactly representable in float32 and as integers * 1/4
    kind = comp[1] if len(comp) == 3 else comp[0]
    if kind in ("Logistic", "QuadraticSVC", "SparseLogisticRegression", "LinearSVC"):
        y = gen.target(rng, X, "clf")
    elif kind == "Poisson":
        y = gen.target(rng, X, "count")
    elif kind in ("QuadraticMultiTask", "MultiTaskLasso"):
        y = gen.target(rng, X, "reg", n_tasks=2)
    else:
        y = np.round(gen.target(rng, X, "reg") * 8) / 8
    return X, y


def run_one(sc, seed, tid):
    """worker: run scenario and its dense-F-f64 reference; return facts trace."""
    import skglm
    comp = sc["comp"]
    X, y = problem(comp, seed)
    if sc["dtype"] == "i64":
        X = np.round(X)              # integer design
    if sc.get("design") == "contrast":
        X = X.copy()
        X[0, :] -= X.sum(axis=0)              # exact on the Z/4 lattice: every column sums to zero
    start = sc.get("start", "cold")
    w0 = None
    if start != "cold":
        rng = gen.rng_for(seed, "storage-start", comp, start)
        T = () if y.ndim == 1 else (y.shape[1],)
        s_, d_, _p = comp
        fi_ = s_ in ("AndersonCD", "ProxNewton", "GroupBCD", "MultiTaskBCD")
        w0 = np.zeros((X.shape[1] + int(fi_),) + T)
        sup = rng.choice(X.shape[1], 3, replace=False)
        w0[sup] = np.round(rng.standard_normal((3,) + T) * 4) / 8
        if start == "warm_null_col":
            X = X.copy()
            X[:, [1, X.shape[1] - 1]] = 0.0           # no stored entry in CSC
            w0[1] = 0.75
            w0[X.shape[1] - 1] = -1.5
    f = rel.Facts(tid, dict(entry=sc["entry"], comp=list(comp), container=sc["container"], dtype=sc["dtype"],
                            expected=sc["expected"], start=start, design=sc.get("design", "generic"), seed=seed))
    tol32 = sc["dtype"] == "f32"

    def execute(container, dtype):
        Xr = SV.as_rep(X, container, dtype)
        yr = y.tolist() if container == "list" else y
        if sc["entry"] == "solve":
            s, d, p = comp
            dfd, pend, Xo, fi = _descs(s, d, p, X, y)
            if d == "QuadraticSVC":
                Xr = SV.as_rep(Xo, container, dtype)
            wi = Xwi = None
            if w0 is not None:
                wi = w0.copy()
                Xwi = X @ wi[:X.shape[1]] + (wi[-1] if fi else 0.0)
            r = SV.run_solver(s, Xr, y, dfd, pend, fit_intercept=fi, tol=1e-5 if dtype == "f32" else 1e-10,
                              w_init=wi, Xw_init=Xwi, **({"max_iter": 3000} if s == "FISTA" else {}))
            return r["w"], r["exc"]
        est = _estimator(comp[0], X, y, tol=1e-5 if dtype == "f32" else 1e-10)
        try:
            with warnings.catch_warnings():
                warnings.simplefilter("ignore")
                if sc["entry"] == "fit":
                    est.fit(Xr, yr)
                    w = np.concatenate([np.ravel(est.coef_), np.ravel(est.intercept_)])
                else:
                    amax = float(np.max(np.abs(X.T @ (y - y.mean())))) / len(y)
                    out = est.path(Xr, y, np.array([0.5, 0.2, 0.05]) * amax)
                    w = np.ravel(out[1])
            return np.asarray(w, dtype=float), None
        except BaseException as e:  # noqa: BLE001
            if isinstance(e, (KeyboardInterrupt, SystemExit)):
                raise
            return None, (type(e).__name__, str(e)[:300])
    wref, eref = execute("ndarray_F", "f64")
    w, e = execute(sc["container"], sc["dtype"])
    f.meta["exc"] = e
    f.meta["ref_exc"] = eref
    if eref is not None:
        f.flag("reference_runs", False)
        return f.trace()
    refused = e is not None
    may_refuse = sc["expected"] == "canon_or_refuse"
    f.flag("refuse_explained", refused and _explained(e), when=refused)
    f.flag("not_refused", not refused, when=not may_refuse)
    if not refused:
        same_shape = w.shape == wref.shape
        f.flag("same_shape", same_shape)
        if same_shape:
            err = float(np.max(np.abs(w - wref))) if w.size else 0.0
            if not np.isfinite(err):
                err = float("inf")
            f.le("same", err, (2e-3 if tol32 else 1e-6) * max(1.0, float(np.max(np.abs(wref)))))
    return f.trace()


def _descs(s, d, p, X, y):
    n = len(y)
    fi = s in ("AndersonCD", "ProxNewton", "GroupBCD", "MultiTaskBCD") and d not in ("QuadraticSVC",)
    dfd = None if d == "None" else {"kind": d}
    Xo = X
    if d == "Huber":
        dfd["delta"] = 1.0
    if d == "WeightedQuadratic":
        dfd["sample_weights"] = (1.0 + (np.arange(n) % 3)).tolist()
    if d == "QuadraticSVC":
        Xo = (X * y[:, None]).T
    if d in ("QuadraticMultiTask",):
        g0 = X.T @ (y - y.mean(0)) / n
        amax = float(np.max(np.linalg.norm(g0, axis=1)))
    elif d in ("Logistic",):
        amax = float(np.max(np.abs(X.T @ y))) / (2 * n)
    elif d == "Poisson":
        amax = float(np.max(np.abs(X.T @ (1 - y)))) / n
    else:
        amax = float(np.max(np.abs(X.T @ (y - np.mean(y))))) / n
    al = 0.1 * max(amax, 1e-3)
    if p == "L1":
        pend = {"kind": "L1", "alpha": al, "positive": False}
    elif p == "L1_plus_L2":
        pend = {"kind": p, "alpha": al, "l1_ratio": 0.7, "positive": False}
    elif p == "IndicatorBox":
        pend = {"kind": p, "alpha": 1.0}
    elif p == "L2":
        pend = {"kind": p, "alpha": al}
    elif p == "L2_1":
        pend = {"kind": p, "alpha": al}
    elif p == "WeightedGroupL2":
        ptr, idx = [0, 3, 5, 8], [5, 0, 2, 7, 1, 3, 4, 6]
        pend = {"kind": p, "alpha": al, "weights": [1.0, 0.5, 2.0], "grp_ptr": ptr, "grp_indices": idx,
                "positive": False}
        dfd.update(grp_ptr=ptr, grp_indices=idx)
    if s == "GramCD":
        fi = False
    return dfd, pend, Xo, fi


def _estimator(name, X, y, tol):
    import skglm
    n = len(y)
    if name in ("SparseLogisticRegression",):
        amax = float(np.max(np.abs(X.T @ y))) / (2 * n)
        return skglm.SparseLogisticRegression(alpha=0.1 * amax, tol=tol)
    if name == "LinearSVC":
        return skglm.LinearSVC(C=0.5, tol=tol)
    if name == "MultiTaskLasso":
        amax = float(np.max(np.linalg.norm(X.T @ (y - y.mean(0)), axis=1))) / n
        return skglm.MultiTaskLasso(alpha=0.1 * amax, tol=tol)
    amax = float(np.max(np.abs(X.T @ (y - y.mean())))) / n
    al = 0.1 * max(amax, 1e-3)
    if name == "Lasso":
        return skglm.Lasso(alpha=al, tol=tol)
    if name == "WeightedLasso":
        return skglm.WeightedLasso(alpha=al, weights=np.array([1, 0.5, 0, 2, 1, 1, 3, 0.2]), tol=tol)
    if name == "ElasticNet":
        return skglm.ElasticNet(alpha=al, l1_ratio=0.6, tol=tol)
    if name == "MCPRegression":
        return skglm.MCPRegression(alpha=al, gamma=20.0, tol=tol)
    if name == "GroupLasso":
        return skglm.GroupLasso(groups=[[5, 0, 2], [7, 1], [3, 4, 6]], alpha=al, tol=tol)
    if name == "GeneralizedLinearEstimator":
        from skglm.datafits import Huber
        from skglm.penalties import L1_plus_L2
        from skglm.solvers import AndersonCD
        return skglm.GeneralizedLinearEstimator(Huber(1.0), L1_plus_L2(al, 0.7), AndersonCD(tol=tol))
    raise KeyError(name)


def run(prop, tier, seed):
    ck = CK.Check(prop, tier, seed)
    ck.cov["rule"] = (
        "scenario = (entry point: raw solve / estimator fit / path) x composition x container (ndarray C/F, list, "
        "CSC with sorted, unsorted and int64 indices, CSR, COO) x dtype (f64, f32, int64), enumerated "
        "EXHAUSTIVELY by specs/api/Storage.tla; reference = dense Fortran float64 run of the same composition "
        "at tol 1e-10 on a tall design with entries in Z/4. Distinct = distinct scenarios; non-trivial = the "
        "reference ran and the scenario either returned (same judged) or raised (refusal judged).")
    ck.cov["trusted_base"] = ["the dense-F-float64 run as reference (itself covered by C01)", "keyword rule deciding that a "
                              "refusal names the representation", "TLC 1.8"]
    ck.assumptions = ["unique minimisers (n > p); float32 compared at 2e-3 relative"]
    try:
        r = tlc.run("Storage", cfg_text="SPECIFICATION Spec\nCHECK_DEADLOCK FALSE\n", timeout=600)
        scs = r["printed"]
        ck.add_tlc(r, name="Storage (exhaustive representation x entry x composition)", kind="scenario generator")
        ck.cov["exhaustive"] = tier == "thorough"
    except tlc.TLCError as e:
        ck.machinery(str(e)[:2000])
        return ck.finish()
    if tier == "quick":
        rng = np.random.default_rng(seed)
        # every (entry, container, dtype) once + every composition once, then random fill
        keep, seen_rep, seen_comp = [], set(), set()
        order = list(rng.permutation(len(scs)))
        for i in order:
            s = scs[i]
            k1 = (s["entry"], s["container"], s["dtype"], s.get("start"))
            # every composition once per storage family (dense / sparse) and once per kind of start
            k2 = (s["entry"], tuple(s["comp"]), s["container"].startswith("csc") and s["dtype"] == "f64",      # (CSR / COO are refused by raw solves)
                  s.get("start"), s.get("design"))
            if k1 not in seen_rep or k2 not in seen_comp:
                keep.append(s)
                seen_rep.add(k1)
                seen_comp.add(k2)
        for i in order:
            if len(keep) >= 190:
                break
            if scs[i] not in keep:
                keep.append(scs[i])
        scs = keep
    items = [(s, seed, i + 1) for i, s in enumerate(scs)]
    res, errs = pool.map_grouped("harness.checks.storage", "run_one", items,
                                 key=lambda it: (it[0]["entry"], tuple(it[0]["comp"])), chunk=8)
    for it, msg, tb in errs:
        ck.machinery(f"driver failed on {it[0] if it else None}: {msg}\n{tb}")
    if errs:
        return ck.finish()
    try:
        v = rel.judge(res)
    except tlc.TLCError as e:
        ck.machinery(str(e)[:2000])
        return ck.finish()
    ck.add_verdicts(v)
    mine = {"same", "same_shape", "refuse_explained", "not_refused", "reference_runs"}
    for t in res:
        names = {c for c, _ in v.bad(t["id"])}
        meta = t["meta"]
        ck.count(json.dumps({k: meta[k] for k in ("entry", "comp", "container", "dtype", "start", "design")}, sort_keys=True),
                 meta.get("ref_exc") is None)
        ck.cov["traces_validated_against_impl"] += 1
        for e in t["events"]:
            if e["when"]:
                ck.clause(e["c"], e["c"] not in names)
        for c in sorted(names & mine):
            m2 = dict(meta, clause=c, exc_type=(meta["exc"] or [None])[0],
                      repr_class=("list" if meta["container"] == "list" else
                                  "dtype" if meta["dtype"] != "f64" else "container"),
                      estimator=(meta["comp"][0] if len(meta["comp"]) == 1 else None))
            ck.violation(c, m2, dict(kind="storage", replay_module="harness.checks.storage", property=prop,
                                     clause=c, scenario={k: meta[k] for k in ("entry", "comp", "container", "dtype",
                                                                              "expected", "start", "design")}, seed=meta["seed"]))
        if len(ck.cov["samples"]) < 6:
            ck.sample(dict(scenario={k: meta[k] for k in ("entry", "comp", "container", "dtype", "expected", "start", "design")},
                           exc=meta.get("exc"), verdict=sorted(names)))
    return ck.finish()


def replay(rp):
    t = run_one(rp["scenario"], rp["seed"], 1)
    v = rel.judge([t])
    print("scenario:", rp["scenario"], "exc:", t["meta"].get("exc"), "verdict:", v.bad(1))
    if any(c == rp["clause"] for c, _ in v.bad(1)):
        print(f"REPRODUCED clause={rp['clause']} property={rp['property']}")
        return 1
    print("not reproduced on the current tree")
    return 0
