"""C07 / C08 for penalties whose prox is not a rational function of the inputs or acts on blocks:
dominance certificates (no candidate beats the returned point), exact KKT certificates for the
convex ones, and agreement of subdiff_distance with the oracle's (definition-derived) distance.
Facts are judged by TLC (specs/trace/RelTrace.tla); numbers come from the oracle mirror.
"""
import itertools
import json

import numpy as np

from ..oracle import penalties as OP
from .. import rel

X1 = [0.0, 0.05, -0.05, 0.3, -0.3, 0.7, 1.0, -1.0, 1.5, 2.5, -2.5, 4.0]
STEPS = [0.25, 1.0, 2.0]


def _H(desc, x, s, u, blk=None):
    u = np.atleast_1d(np.asarray(u, dtype=float))
    x = np.atleast_1d(np.asarray(x, dtype=float))
    if desc["kind"] in OP.GROUP_BLOCK:
        full = np.zeros(blk["p"])
        full[blk["idx"]] = u
        # penalty restricted to the block: other blocks are zero
        pv = OP.value(desc, full)
    elif desc["kind"] in OP.ROW_BLOCK:
        pv = OP.value(desc, u.reshape(1, -1))
    else:
        pv = OP.value(desc, u)
    return 0.5 * float(((u - x) ** 2).sum()) + s * pv


def _cands_1d(x):
    r = abs(x) + 1.0
    g = np.linspace(-r, r, 4001)
    return list(g) + [0.0, x]


def _refine_1d(desc, x, s, best, width, rounds=3):
    b = best
    for _ in range(rounds):
        g = np.linspace(b - width, b + width, 401)
        vals = [_H(desc, x, s, u) for u in g]
        b = float(g[int(np.argmin(vals))])
        width /= 100
    return b


def scalar_jobs():
    out = []
    for al in (0.5, 1.0):
        out.append({"kind": "L0_5", "alpha": al})
        out.append({"kind": "L2_3", "alpha": al})
        for eps in (0.3, 1.0, 2.0):
            out.append({"kind": "LogSumPenalty", "alpha": al, "eps": eps})
    return out


def run_scalar(desc, tid0):
    """worker: prox_1d dominance + subdiff_distance agreement for one non-piecewise scalar penalty."""
    from .. import skl
    pen = skl.penalty(desc)
    traces = []
    tid = tid0
    for s in STEPS:
        for x in X1:
            tid += 1
            f = rel.Facts(tid, dict(desc, op="prox_1d", x=x, s=s))
            try:
                u = float(pen.prox_1d(x, s, 0))
                exc = None
            except Exception as e:  # noqa: BLE001
                u, exc = float("nan"), type(e).__name__
            f.flag("finite", np.isfinite(u))
            if np.isfinite(u):
                hu = _H(desc, x, s, u)
                cs = _cands_1d(x)
                hv = [_H(desc, x, s, c) for c in cs]
                b = cs[int(np.argmin(hv))]
                b = _refine_1d(desc, x, s, b, (abs(x) + 1) / 2000)
                hb = min(min(hv), _H(desc, x, s, b))
                f.le("prox_min", hu - 1e-9 * max(1.0, abs(hu)), hb)
            f.meta["exc"] = exc
            traces.append(f.trace())
    # C08: subdiff_distance vs definition-derived distance, kinks and zero included
    for w in (0.0, 1e-3, -1e-3, 0.5, -0.5, 2.0, -3.0):
        for g in (-2.0, -0.5, 0.0, 0.3, 1.0, 2.5):
            tid += 1
            f = rel.Facts(tid, dict(desc, op="subdiff_distance", w=w, g=g))
            try:
                d = float(pen.subdiff_distance(np.array([w]), np.array([g]), np.array([0]))[0])
            except Exception as e:  # noqa: BLE001
                d = float("nan")
                f.meta["exc"] = type(e).__name__
            ref = float(OP.subdiff_dist(desc, np.array([w]), np.array([g]))[0])
            f.approx("dist_eq", d, ref, 1e-9, 1e-9)
            traces.append(f.trace())
    return traces


# ------------------------------------------------------------------ block penalties
BLOCKS = [np.zeros(1), np.zeros(3), np.array([2.0]), np.array([-0.5]), np.array([3.0, 4.0]),
          np.array([-3.0, 4.0]) / 10, np.array([1.0, 2.0, 2.0]), np.array([0.0, -1.5, 0.0]),
          np.array([2.0, 3.0, 6.0]) / 7, np.array([1e-3, -1e-3]), np.array([0.3, -0.2, 0.1])]


def block_jobs():
    out = []
    for al in (0.5, 1.0):
        out.append({"kind": "L2_1", "alpha": al})
        out.append({"kind": "L2_05", "alpha": al})
        for ga in (3.0, 4.5):
            out.append({"kind": "BlockMCPenalty", "alpha": al, "gamma": ga})
            out.append({"kind": "BlockSCAD", "alpha": al, "gamma": ga})
    return out


def _row_cands(x, rng):
    r = float(np.linalg.norm(x))
    cs = [np.zeros_like(x), x.copy()]
    if r > 0:
        for t in np.linspace(0, 1.2, 601):
            cs.append(t * x)
        for _ in range(40):
            cs.append(x * rng.uniform(0, 1.1) + rng.standard_normal(x.shape) * 0.05 * r)
    else:
        for _ in range(40):
            cs.append(rng.standard_normal(x.shape) * 0.1)
    return cs


def run_block(desc, tid0):
    from .. import skl
    pen = skl.penalty(desc)
    rng = np.random.default_rng(7)
    traces = []
    tid = tid0
    steps = [s for s in STEPS if not (desc["kind"] == "BlockMCPenalty" and s >= desc["gamma"])
             and not (desc["kind"] == "BlockSCAD" and s >= desc["gamma"] - 1)]
    for s in steps:
        for x in BLOCKS:
            tid += 1
            f = rel.Facts(tid, dict(desc, op="prox_1feat", x=x.tolist(), s=s))
            try:
                u = np.asarray(pen.prox_1feat(x.copy(), s, 0), dtype=float)
            except Exception as e:  # noqa: BLE001
                u = np.full_like(x, np.nan)
                f.meta["exc"] = type(e).__name__
            fin = bool(np.all(np.isfinite(u)))
            f.flag("finite", fin)
            if fin:
                hu = _H(desc, x, s, u)
                hb = min(_H(desc, x, s, c) for c in _row_cands(x, rng))
                f.le("prox_min", hu - 1e-9 * max(1.0, abs(hu)), hb)
                if OP.is_convex(desc):
                    d = OP.subdiff_dist(desc, u.reshape(1, -1), (-(x - u) / s).reshape(1, -1))[0]
                    f.le("prox_kkt", d, 1e-9 * max(1.0, float(np.abs(x).max())))
            traces.append(f.trace())
    # C08: row subdiff_distance vs oracle
    for w in BLOCKS:
        for gscale in (0.0, 0.4, 1.0, 2.0):
            g = (rng.standard_normal(w.shape) if gscale else np.zeros_like(w)) * gscale
            tid += 1
            f = rel.Facts(tid, dict(desc, op="subdiff_distance", w=w.tolist(), g=g.tolist()))
            try:
                d = float(pen.subdiff_distance(w.reshape(1, -1), g.reshape(1, -1), np.array([0]))[0])
            except Exception as e:  # noqa: BLE001
                d = float("nan")
                f.meta["exc"] = type(e).__name__
            ref = float(OP.subdiff_dist(desc, w.reshape(1, -1), g.reshape(1, -1))[0])
            f.approx("dist_eq", d, ref, 1e-9, 1e-9)
            traces.append(f.trace())
    return traces


def group_jobs():
    out = []
    ptr, idx = [0, 2, 5, 6], [0, 1, 2, 3, 4, 5]
    for pos in (False, True):
        for wts in ([1.0, 0.5, 2.0], [0.0, 1.0, 1.75]):
            out.append({"kind": "WeightedGroupL2", "alpha": 1.0, "weights": wts, "grp_ptr": ptr,
                        "grp_indices": idx, "positive": pos})
    # pairwise distinct feature weights, group index different from the feature indices it holds
    out.append({"kind": "WeightedL1GroupL2", "alpha": 1.0, "weights_groups": [1.0, 0.5, 0.0],
                "weights_features": [0.3, 1.1, 0.0, 0.7, 1.9, 0.45], "grp_ptr": ptr,
                "grp_indices": idx})
    out.append({"kind": "WeightedL1GroupL2", "alpha": 0.5, "weights_groups": [0.0, 1.0, 2.0],
                "weights_features": [1.0, 0.2, 0.6, 0.0, 1.3, 0.8], "grp_ptr": ptr,
                "grp_indices": idx})
    # interleaved / permuted groups: grp_indices is not the identity
    pidx = [4, 0, 2, 5, 1, 3]
    out.append({"kind": "WeightedL1GroupL2", "alpha": 1.0, "weights_groups": [1.0, 0.5, 0.25],
                "weights_features": [0.3, 1.1, 0.05, 0.7, 1.9, 0.45], "grp_ptr": ptr,
                "grp_indices": pidx})
    out.append({"kind": "WeightedGroupL2", "alpha": 1.0, "weights": [1.0, 0.5, 2.0], "grp_ptr": ptr,
                "grp_indices": pidx, "positive": False})
    out.append({"kind": "WeightedGroupL2", "alpha": 1.0, "weights": [0.7, 0.0, 1.5], "grp_ptr": ptr,
                "grp_indices": pidx, "positive": True})
    return out


def run_group(desc, tid0):
    from .. import skl
    pen = skl.penalty(desc)
    rng = np.random.default_rng(11)
    traces = []
    tid = tid0
    grs = OP.groups(desc)
    for gi, idx in enumerate(grs):
        xs = [np.zeros(len(idx)), np.ones(len(idx)) * 2.0, -np.ones(len(idx)) * 0.7]
        if len(idx) == 2:
            xs += [np.array([3.0, 4.0]) / 5, np.array([-3.0, 4.0]), np.array([1e-3, 2.0])]
        if len(idx) == 3:
            xs += [np.array([1.0, 2.0, 2.0]), np.array([-1.0, 2.0, -2.0]) / 3,
                   np.array([0.0, 0.0, 1.5])]
        xs += [rng.standard_normal(len(idx)) for _ in range(3)]
        for s in (0.25, 1.0):
            for x in xs:
                tid += 1
                f = rel.Facts(tid, dict(kind=desc["kind"], positive=desc.get("positive"), group=gi,
                                        op="prox_1group", x=x.tolist(), s=s,
                                        weights=desc.get("weights", desc.get("weights_groups"))))
                try:
                    u = np.asarray(pen.prox_1group(x.copy(), s, gi), dtype=float)
                except Exception as e:  # noqa: BLE001
                    u = np.full_like(x, np.nan)
                    f.meta["exc"] = type(e).__name__
                fin = bool(np.all(np.isfinite(u)))
                f.flag("finite", fin)
                if fin:
                    full = np.zeros(len(desc["grp_indices"]))
                    full[idx] = u
                    f.flag("prox_feasible", OP.feasible(desc, full))
                    gfull = np.zeros_like(full)
                    gfull[idx] = -(x - u) / s
                    d = OP.subdiff_dist(desc, full, gfull)[gi]
                    f.le("prox_kkt", d, 1e-9 * max(1.0, float(np.abs(x).max())))
                    ref = OP.prox_block(desc, x, s, gi)
                    hu = _H(desc, x, s, u, dict(p=len(full), idx=idx))
                    hr = _H(desc, x, s, ref, dict(p=len(full), idx=idx))
                    f.le("prox_min", hu - 1e-9 * max(1.0, abs(hu)), hr)
                traces.append(f.trace())
    # C08: group subdiff_distance vs oracle
    if hasattr(pen, "subdiff_distance"):
        p = len(desc["grp_indices"])
        for k in range(12):
            w = rng.standard_normal(p) * (rng.random(p) < 0.6)
            if k % 3 == 0:
                w[grs[0]] = 0.0
            if desc.get("positive") and k % 2 == 0:
                w = np.abs(w)
            g = rng.standard_normal(p)
            tid += 1
            f = rel.Facts(tid, dict(kind=desc["kind"], positive=desc.get("positive"),
                                    op="subdiff_distance", w=w.tolist(), g=g.tolist()))
            try:
                # the code expects the gradient STACKED group by group (working-set order)
                gstack = np.concatenate([g[np.asarray(idx)] for idx in grs])
                d = np.asarray(pen.subdiff_distance(w, gstack, np.arange(len(grs))), dtype=float)
            except Exception as e:  # noqa: BLE001
                d = np.full(len(grs), np.nan)
                f.meta["exc"] = type(e).__name__
            ref = OP.subdiff_dist(desc, w, g)
            for gi in range(len(grs)):
                f.approx("dist_eq", d[gi], ref[gi], 1e-9, 1e-9)
            traces.append(f.trace())
    # the value function itself (whose subdifferential / prox is taken): documented formula, any group layout
    p = len(desc["grp_indices"])
    for k in range(12):
        w = rng.standard_normal(p) * (rng.random(p) < 0.7)
        if desc.get("positive"):
            w = np.abs(w)
        tid += 1
        f = rel.Facts(tid, dict(kind=desc["kind"], positive=desc.get("positive"), op="subdiff_value", w=w.tolist()))
        try:
            val = float(pen.value(w))
        except Exception as e:  # noqa: BLE001
            val = float("nan")
            f.meta["exc"] = type(e).__name__
        f.approx("value_eq", val, float(OP.value(desc, w)), 1e-12, 1e-10)
        traces.append(f.trace())
    return traces



# ------------------------------------------------------------------ C08: the solvers' fixed-point residual functions
def fixpoint_jobs():
    out = []
    wts = [1.0, 0.0, 2.0, 0.5, 1.5, 0.25, 3.0]
    for pos in (False, True):
        out.append({"kind": "L1", "alpha": 0.5, "positive": pos})
        out.append({"kind": "WeightedL1", "alpha": 0.5, "weights": wts, "positive": pos})
        out.append({"kind": "MCPenalty", "alpha": 0.5, "gamma": 3.0, "positive": pos})
        out.append({"kind": "WeightedMCPenalty", "alpha": 0.5, "gamma": 3.0, "weights": wts, "positive": pos})
    out.append({"kind": "L1_plus_L2", "alpha": 0.5, "l1_ratio": 0.4, "positive": False})
    out.append({"kind": "SCAD", "alpha": 0.5, "gamma": 3.0})
    out.append({"kind": "IndicatorBox", "alpha": 1.0})
    ptr, pidx = [0, 2, 5, 7], [4, 0, 2, 5, 1, 6, 3]
    out.append({"kind": "WeightedGroupL2", "alpha": 0.5, "weights": [1.0, 0.0, 2.0], "grp_ptr": ptr, "grp_indices": pidx,
                "positive": False})
    out.append({"kind": "WeightedL1GroupL2", "alpha": 0.5, "weights_groups": [1.0, 0.5, 0.25],
                "weights_features": [0.3, 1.1, 0.05, 0.7, 1.9, 0.45, 0.0], "grp_ptr": ptr, "grp_indices": pidx})
    out.append({"kind": "L2_1", "alpha": 0.5})
    out.append({"kind": "BlockMCPenalty", "alpha": 0.5, "gamma": 3.0})
    out.append({"kind": "BlockSCAD", "alpha": 0.5, "gamma": 3.0})
    return out


def run_fixpoint_fn(desc, tid0):
    """worker: dist_fix_point_cd / dist_fix_point_bcd (solvers.common, solvers.multitask_bcd) on working sets that are
    NOT arange, against the definition |w_b - prox_{pen_b / L_b}(w_b - grad_b / L_b)| (a null block: step NULL_STEP)."""
    from .. import skl
    from ..oracle import problem as PB
    from skglm.solvers.common import dist_fix_point_cd, dist_fix_point_bcd
    from skglm.solvers.multitask_bcd import dist_fix_point_bcd as dist_fix_point_mt
    pen = skl.penalty(desc)
    df = skl.datafit({"kind": "Quadratic"})
    rng = np.random.default_rng([29, sum(map(ord, json.dumps(desc, sort_keys=True)))])
    traces = []
    tid = tid0
    p = 7
    k = desc["kind"]
    for rep in range(14):
        tid += 1
        L = rng.uniform(0.3, 3.0, p)
        if rep % 4 == 0:
            L[rng.integers(p)] = 0.0
        if k in OP.GROUP_BLOCK:
            grs = OP.groups(desc)
            nb = len(grs)
            Lb = rng.uniform(0.3, 3.0, nb)
            w = rng.standard_normal(p) * (rng.random(p) < 0.7)
            if desc.get("positive"):
                w = np.abs(w)
            g = rng.standard_normal(p)
            ws = rng.permutation(nb)[: int(rng.integers(1, nb + 1))].astype(np.int32)
            f = rel.Facts(tid, dict(kind=k, op="subdiff_fixpoint_fn", positive=desc.get("positive"), ws=ws.tolist(),
                                    w=w.tolist(), g=g.tolist(), L=Lb.tolist()))
            gstack = np.concatenate([g[np.asarray(grs[b])] for b in ws])
            try:
                d = np.asarray(dist_fix_point_bcd(w, gstack, Lb[ws], df, pen, ws), dtype=float)
            except Exception as e:  # noqa: BLE001
                d = np.full(nb, np.nan)
                f.meta["exc"] = type(e).__name__
            for pos_, b in enumerate(ws):
                idx = np.asarray(grs[b])
                u = OP.prox_block(desc, w[idx] - g[idx] / Lb[b], 1.0 / Lb[b], int(b))
                f.approx("fixpoint_fn_eq", d[pos_], float(np.linalg.norm(w[idx] - u)), 1e-10, 1e-9)
        elif k in ("L2_1", "BlockMCPenalty", "BlockSCAD"):
            T = 3
            W = rng.standard_normal((p, T)) * (rng.random((p, 1)) < 0.7)
            G = rng.standard_normal((p, T))
            G[L == 0] = 0.0
            ws = rng.permutation(p)[: int(rng.integers(1, p + 1))].astype(np.int64)
            f = rel.Facts(tid, dict(kind=k, op="subdiff_fixpoint_fn", ws=ws.tolist(), w=W.tolist(), g=G.tolist(),
                                    L=L.tolist()))
            try:
                d = np.asarray(dist_fix_point_mt(W, G[ws], L[ws], df, pen, ws), dtype=float)
            except Exception as e:  # noqa: BLE001
                d = np.full(len(ws), np.nan)
                f.meta["exc"] = type(e).__name__
            if k == "L2_1":
                for pos_, j in enumerate(ws):
                    sj = 1.0 / L[j] if L[j] != 0 else PB.NULL_STEP
                    u = OP.prox_block(desc, W[j] - G[j] * sj, sj, int(j))
                    f.approx("fixpoint_fn_eq", d[pos_], float(np.linalg.norm(W[j] - u)), 1e-10, 1e-9)
            else:
                # non-convex block penalties: the residual must use the row's OWN data (position-independence)
                full = np.asarray(dist_fix_point_mt(W, G, L, df, pen, np.arange(p)), dtype=float)
                for pos_, j in enumerate(ws):
                    f.approx("fixpoint_fn_eq", d[pos_], float(full[j]), 1e-12, 1e-12)
        else:
            w = rng.standard_normal(p) * (rng.random(p) < 0.7)
            if desc.get("positive") or k == "IndicatorBox":
                w = np.abs(w)
            if k == "IndicatorBox":
                w = np.minimum(w, desc["alpha"])
            g = rng.standard_normal(p)
            g[L == 0] = 0.0                          # a null column has a zero gradient
            ws = rng.permutation(p)[: int(rng.integers(1, p + 1))].astype(np.int64)
            f = rel.Facts(tid, dict(kind=k, op="subdiff_fixpoint_fn", positive=desc.get("positive"), ws=ws.tolist(),
                                    w=w.tolist(), g=g.tolist(), L=L.tolist()))
            try:
                d = np.asarray(dist_fix_point_cd(w, g[ws], L[ws], df, pen, ws), dtype=float)
            except Exception as e:  # noqa: BLE001
                d = np.full(len(ws), np.nan)
                f.meta["exc"] = type(e).__name__
            sd = OP.subdiff_dist(desc, w, g)
            for pos_, j in enumerate(ws):
                sj = 1.0 / L[j] if L[j] != 0 else PB.NULL_STEP
                us, _ = OP.prox_scalar(desc, float(w[j] - sj * g[j]), sj, int(j))
                ref = min(abs(w[j] - u) for u in us)
                amb = len(us) > 1                                  # a tie of the prox: either value is right
                # (for the non-convex penalties the prox with the null-column step is outside its well-posed range)
                f.approx("fixpoint_fn_eq", d[pos_], ref, 1e-10, 1e-9,
                         when=not amb and not (L[j] == 0 and k in NONCONVEX_SCALAR))
                # C08: a fixed point of the prox-gradient map has score zero (any penalty), and conversely (convex)
                if k not in NONCONVEX_SCALAR:
                    f.flag("fixpoint_fn_zero_iff", (d[pos_] <= 1e-12) == (sd[j] <= 1e-12),
                           when=bool(np.isfinite(sd[j])) and L[j] != 0)
                else:
                    f.flag("fixpoint_fn_zero_iff", sd[j] <= 1e-9, when=bool(d[pos_] <= 1e-14 and np.isfinite(sd[j])
                                                                           and L[j] != 0))
        traces.append(f.trace())
    return traces


NONCONVEX_SCALAR = ("MCPenalty", "WeightedMCPenalty", "SCAD")


def slope_prox_ref(x, lam):
    """SLOPE prox by the min-max formula of isotonic regression (algorithm independent)."""
    x = np.asarray(x, dtype=float)
    a = np.abs(x)
    order = np.argsort(-a, kind="stable")
    z = a[order] - lam
    n = len(z)
    y = np.zeros(n)
    for i in range(n):
        # decreasing isotonic regression: y_i = min_{k<=i} max_{l>=i} mean(z[k..l])
        best = np.inf
        for k in range(i + 1):
            m = -np.inf
            for l in range(i, n):
                m = max(m, z[k:l + 1].mean())
            best = min(best, m)
        y[i] = max(best, 0.0)
    out = np.zeros(n)
    out[order] = y
    return np.sign(x) * out


def run_slope(_desc, tid0):
    from .. import skl
    traces = []
    tid = tid0
    rng = np.random.default_rng(3)
    lams = [np.array([1.0]), np.array([1.0, 0.5]), np.array([2.0, 1.0, 1.0]),
            np.array([1.5, 1.0, 0.5, 0.0]), np.array([1.0, 1.0, 1.0])]
    for lam in lams:
        desc = {"kind": "SLOPE", "alphas": lam.tolist()}
        pen = skl.penalty(desc)
        p = len(lam)
        xs = [np.zeros(p), np.ones(p), -np.ones(p) * 2, np.arange(1, p + 1) * 0.7,
              np.arange(p, 0, -1) * 1.1 * np.array([(-1) ** i for i in range(p)])]
        xs += [rng.standard_normal(p) * 2 for _ in range(8)]
        xs += [np.round(rng.standard_normal(p) * 2) for _ in range(6)]      # ties
        for s in (0.5, 1.0):
            for x in xs:
                tid += 1
                f = rel.Facts(tid, dict(kind="SLOPE", alphas=lam.tolist(), op="prox_vec",
                                        x=x.tolist(), s=s))
                try:
                    u = np.asarray(pen.prox_vec(x.copy(), s), dtype=float)
                except Exception as e:  # noqa: BLE001
                    u = np.full_like(x, np.nan)
                    f.meta["exc"] = type(e).__name__
                fin = bool(np.all(np.isfinite(u)))
                f.flag("finite", fin)
                if fin:
                    ref = slope_prox_ref(x, lam * s)
                    hu = _H(desc, x, s, u)
                    hr = _H(desc, x, s, ref)
                    f.le("prox_min", hu - 1e-9 * max(1.0, abs(hu)), hr)
                    for _ in range(20):
                        c = u + rng.standard_normal(p) * 0.05
                        f.le("prox_min", hu - 1e-9 * max(1.0, abs(hu)), _H(desc, x, s, c))
                traces.append(f.trace())
    return traces


def all_jobs():
    jobs = []
    base = 0
    for d in scalar_jobs():
        jobs.append(("run_scalar", d, base))
        base += 1000
    for d in block_jobs():
        jobs.append(("run_block", d, base))
        base += 1000
    for d in group_jobs():
        jobs.append(("run_group", d, base))
        base += 1000
    jobs.append(("run_slope", {"kind": "SLOPE"}, base))
    base += 1000
    for d in fixpoint_jobs():
        jobs.append(("run_fixpoint_fn", d, base))
        base += 1000
    return jobs


def dispatch(fn, desc, base):
    return globals()[fn](desc, base)
