"""C03, last sentence: "iterative reweighting never increases the non-convex objective it majorises".

specs/api/Reweight.tla is (a) the design model of the majorise-minimise loop (TLC: Descent and Majorises hold when
`derivative` is the derivative w.r.t. |w|, and fail when it carries the sign of w) and (b) the catalogue of real runs.
Each catalogue entry is executed on the real IterativeReweightedL1; every surrogate solve is observed (the weights
handed to it, the coefficients it returns) and RelTrace judges
  rw_descent        F(w_{k+1}) <= F(w_k)  for the TRUE objective F = documented loss + documented penalty (oracle)
  rw_hist_true      loss_history_[k] is F(w_k)
  rw_weights_valid  the weights of surrogate k+1 are non-negative and equal d pen / d|w| at w_k on its support
  rw_final          coef_ is the last iterate
"""
import json
import warnings

import numpy as np

from .. import gen, rel, tlc
from ..oracle import problem as PB

SIZES = {"tall": (40, 12, 0.3), "wide": (20, 40, 0.5)}
MINE = {"rw_descent", "rw_hist_true", "rw_weights_valid", "rw_final", "rw_runs"}
CFG_SCEN = ('SPECIFICATION Spec\nCONSTANTS\n M = 0\n Targets = {0}\n DerivKind = "wrt_abs"\n MaxK = 0\n'
            ' Mode = "scenarios"\nCHECK_DEADLOCK FALSE\n')


def _pen(desc_kind, alpha):
    if desc_kind == "L0_5":
        return {"kind": "L0_5", "alpha": alpha}
    if desc_kind == "L2_3":
        return {"kind": "L2_3", "alpha": alpha}
    return {"kind": "LogSumPenalty", "alpha": alpha, "eps": float(desc_kind.split("_")[1])}


def _supergradient(pend, w):
    a = np.abs(w)
    if pend["kind"] == "L0_5":
        return 1.0 / (2.0 * np.sqrt(a))
    if pend["kind"] == "L2_3":
        return 2.0 / (3.0 * a ** (1.0 / 3.0))
    return 1.0 / (a + pend["eps"])


def run_one(sc, seed, tid):
    from scipy import sparse
    from skglm.experimental import IterativeReweightedL1
    from skglm.solvers import AndersonCD
    from .. import skl
    rng = gen.rng_for(seed, "reweight", json.dumps(sc, sort_keys=True))
    n, p, rho = SIZES[sc["data"]]
    X = gen.design(rng, n, p, rho=rho)
    wt = np.zeros(p)
    supp = rng.choice(p, 4, replace=False)
    mag = rng.uniform(1.0, 3.0, 4)
    sg = {"positive": np.ones(4), "negative": -np.ones(4), "mixed": np.array([1.0, -1.0, 1.0, -1.0])}[sc["signs"]]
    wt[supp] = mag * sg
    y = X @ wt + 0.3 * rng.standard_normal(n)
    amax = float(np.max(np.abs(X.T @ y))) / n
    alpha = float(sc["alpha"]) * amax
    pend = _pen(sc["penalty"], alpha)
    prob = dict(X=X, y=y, datafit={"kind": "Quadratic"}, penalty=pend, fit_intercept=False)
    f = rel.Facts(tid, dict(sc, seed=seed))
    solver = AndersonCD(tol=1e-11, fit_intercept=False, max_iter=200)
    calls = []
    orig = solver.solve

    def solve(X_, y_, df_, pen_, *a, **k):
        wts = np.array(pen_.weights, dtype=float, copy=True)
        res = orig(X_, y_, df_, pen_, *a, **k)
        calls.append((wts, np.array(res[0], dtype=float, copy=True), float(np.max(res[2]))))
        return res
    solver.solve = solve
    est = IterativeReweightedL1(penalty=skl.raw_penalty(pend), solver=solver, n_reweights=int(sc["n_reweights"]))
    Xs = sparse.csc_matrix(X) if sc["storage"] == "csc" else X
    try:
        with warnings.catch_warnings():
            warnings.simplefilter("ignore")
            est.fit(Xs, y)
        exc = None
    except BaseException as e:  # noqa: BLE001
        if isinstance(e, (KeyboardInterrupt, SystemExit)):
            raise
        exc = (type(e).__name__, str(e)[:300])
    f.meta["exc"] = exc
    f.flag("rw_runs", exc is None)
    if exc is not None:
        return f.trace()
    F = [PB.objective(prob, w) for _w, w, _c in calls]
    f.meta["F"] = F
    f.meta["n_solves"] = len(calls)
    hist = [float(v) for v in est.loss_history_]
    f.flag("rw_hist_len", len(hist) == len(calls) == int(sc["n_reweights"]))
    scale = max(1.0, abs(F[0]))
    for k, (wts, w, crit) in enumerate(calls):
        conv = crit <= 1e-9                      # the surrogate was solved (a majoriser only bounds its minimiser)
        if k < len(hist):
            f.approx("rw_hist_true", hist[k], F[k], 1e-9 * scale, 1e-9)
        if k >= 1:
            prev = calls[k - 1][1]
            nzp = prev != 0
            f.flag("rw_weights_valid", bool(np.all(wts >= 0)))
            if np.any(nzp):
                sgd = _supergradient(pend, prev[nzp])
                err = float(np.max(np.abs(wts[nzp] - sgd) / np.maximum(1.0, np.abs(sgd))))
                f.le("rw_weights_valid", err, 1e-6)
            # zero coefficients get a weight at least as large as any finite slope of the penalty near zero
            if np.any(~nzp):
                lo = 1.0 / pend["eps"] * (1 - 1e-9) if pend["kind"] == "LogSumPenalty" else 1e6
                f.flag("rw_weights_valid", bool(np.all(wts[~nzp] >= lo)))
            f.le("rw_descent", F[k], F[k - 1] + 1e-8 * scale, when=conv)
    f.le("rw_final", float(np.max(np.abs(np.asarray(est.coef_, dtype=float) - calls[-1][1]))), 0.0)
    return f.trace()


def run_binding(ck, pool, tier, seed):
    """Adds the reweighting part to the C03 check. Returns list of (clause, meta) violations handled by ck."""
    import numpy as _np
    try:
        rd = tlc.run("Reweight", "Reweight_design.cfg", timeout=300)
        rp = tlc.run("Reweight", "Reweight_pinned.cfg", timeout=300)
        rs = tlc.run("Reweight", cfg_text=CFG_SCEN, timeout=300)
    except tlc.TLCError as e:
        ck.machinery(str(e)[:2000])
        return
    ck.add_tlc(rd, name="Reweight design (majorise-minimise on a lattice; PROPERTY Descent, INVARIANT Majorises)",
               kind="design")
    if rd["violated"]:
        ck.machinery(f"Reweight design model: {rd['violated']} violated with DerivKind = wrt_abs")
    ck.cov["design_models"].append(dict(name="Reweight[DerivKind=wrt_signed] (LogSumPenalty.derivative at the pinned "
                                             "commit)", violated=rp["violated"], expected_to_violate=True))
    if "Majorises" not in rp["violated"]:
        ck.cov["notes"].append("Reweight pinned config no longer violates Majorises: the negative model lost its teeth")
    scs = rs["printed"]
    if tier == "quick":
        rng = _np.random.default_rng(seed)
        keep = [s for s in scs if s["signs"] != "positive" and s["data"] == "tall" and s["storage"] == "dense"
                and s["alpha"] == "0.05"]
        rest = [s for s in scs if s not in keep]
        keep += [rest[i] for i in rng.permutation(len(rest))[:24]]
        scs = keep
    items = [(s, seed, 90000 + i) for i, s in enumerate(scs)]
    res, errs = pool.map_grouped("harness.checks.reweight", "run_one", items, key=lambda it: it[0]["penalty"], chunk=8)
    for it, msg, tb in errs:
        ck.machinery(f"reweight driver failed on {it[0] if it else None}: {msg}\n{tb}")
    if errs:
        return
    try:
        v = rel.judge(res)
    except tlc.TLCError as e:
        ck.machinery(str(e)[:2000])
        return
    ck.add_verdicts(v)
    n_desc = 0
    for t in res:
        names = {c for c, _ in v.bad(t["id"])}
        meta = t["meta"]
        ck.count("reweight:" + json.dumps({k: meta[k] for k in ("penalty", "n_reweights", "alpha", "data", "signs",
                                                                 "storage")}, sort_keys=True), meta.get("exc") is None)
        ck.cov["traces_validated_against_impl"] += 1
        for e in t["events"]:
            if e["when"]:
                ck.clause(e["c"], e["c"] not in names)
                n_desc += e["c"] == "rw_descent"
        for c in sorted(names & MINE):
            m2 = dict({k: meta[k] for k in ("penalty", "n_reweights", "alpha", "data", "signs", "storage", "seed")},
                      clause=c, exc_type=(meta.get("exc") or [None])[0], F=meta.get("F"))
            ck.violation(c, m2, dict(kind="reweight", replay_module="harness.checks.reweight", property="C03",
                                     clause=c, scenario={k: meta[k] for k in ("penalty", "n_reweights", "alpha", "data",
                                                                              "signs", "storage")},
                                     seed=meta["seed"]))
    ck.cov["binding"].append(dict(check="IterativeReweightedL1: every surrogate solve observed (weights in, coefficients "
                                        "out); true objective of successive iterates judged", runs=len(res),
                                  descent_steps_judged=n_desc))


def replay(rp):
    t = run_one(rp["scenario"], rp["seed"], 1)
    v = rel.judge([t])
    print("scenario:", rp["scenario"], "exc:", t["meta"].get("exc"), "F:", t["meta"].get("F"), "verdict:", v.bad(1))
    if any(c == rp["clause"] for c, _ in v.bad(1)):
        print(f"REPRODUCED clause={rp['clause']} property={rp['property']}")
        return 1
    print("not reproduced on the current tree")
    return 0
