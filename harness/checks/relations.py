"""C02 / C14 / C15 / C16: relations between runs. Instances enumerated by specs/api/Relations.tla; both
members of each pair are solved on the real code; facts judged by TLC (RelTrace)."""
import json
import warnings

import numpy as np

from .. import check as CK
from .. import gen, pool, rel, tlc
from .. import solve as SV
from ..oracle import problem as PB

N, P = 40, 10
TOL = 1e-10


# ------------------------------------------------------------------ helpers
def _data(rng, kind="reg", n=N, p=P, tasks=1, offset=1.0, rho=0.5):
    X = gen.design(rng, n, p, rho=rho)
    if kind == "reg":
        y = gen.target(rng, X, "reg", offset=offset, n_tasks=tasks)
    elif kind == "clf":
        y = gen.target(rng, X, "clf", offset=0.3)
        X[1] = X[0]
        y[0], y[1] = 1.0, -1.0
    elif kind == "surv":
        y = gen.target(rng, X, "surv")
    return X, y


def _amax(X, y, dfd, fi):
    prob = dict(X=X, y=y, datafit=dfd, penalty={"kind": "L2", "alpha": 0.0}, fit_intercept=fi)
    w0 = np.zeros((X.shape[1] + fi,) + (() if np.ndim(y) == 1 or dfd["kind"] == "Cox" else (y.shape[1],)))
    if fi and dfd["kind"] in ("Quadratic", "QuadraticMultiTask", "QuadraticGroup"):
        w0[-1] = np.mean(y, axis=0)
    g, _ = PB.gradients(prob, w0)
    return float(np.max(np.linalg.norm(g.reshape(len(g), -1), axis=1)))


def _run(s, X, y, dfd, pend, fi, storage, **kw):
    Xr = SV.as_rep(X, "csc" if storage == "csc" else "ndarray_F")
    r = SV.run_solver(s, Xr, y, dfd, pend, fit_intercept=fi, tol=kw.pop("tol", TOL), **kw)
    r["reported"] = r["exc"] is None and r["crit"] is not None and r["crit"] <= 10 * TOL
    return r


def _compare(f, clause, prob, w1, w2, ok1, ok2, tol_obj=1e-7, tol_w=1e-5, unique_clause=None):
    """both coefficient vectors are in the coordinates of `prob`"""
    both = bool(ok1 and ok2 and w1 is not None and w2 is not None)
    # the catalogue problems are small and well conditioned: both members reach their tolerance within the default
    # budgets (they all do on the repaired tree); a member that stops converging is not "giving the same result"
    f.flag("converges", both)
    if not both:
        f.le(clause, 0.0, 0.0, when=False)
        return
    o1, o2 = PB.objective(prob, w1), PB.objective(prob, w2)
    f.le(clause, abs(o1 - o2), tol_obj * max(1.0, abs(o1)))
    mu = SV.strong_convexity(prob, w1)
    uniq = mu is not None and mu > 1e-5
    f.le(unique_clause or clause, float(np.max(np.abs(np.asarray(w1) - np.asarray(w2)))),
         tol_w * max(1.0, float(np.max(np.abs(w1)))), when=uniq)


def _est_w(est, fi):
    c = np.asarray(est.coef_, dtype=float)
    i = np.ravel(np.asarray(est.intercept_, dtype=float))
    if c.ndim == 2 and c.shape[0] > 1:         # multitask (T, p)
        W = c.T
        return np.vstack([W, i.reshape(1, -1)]) if fi else W
    return np.concatenate([c.ravel(), i[:1]]) if fi else c.ravel()


# ------------------------------------------------------------------ C14 reductions
def run_c14(inst, seed, tid):
    import skglm
    from scipy import sparse
    kind, st, fi = inst["kind"], inst["storage"], bool(inst["fit_intercept"])
    rng = gen.rng_for(seed, "c14", json.dumps(inst, sort_keys=True))
    f = rel.Facts(tid, dict(inst, seed=seed))
    X, y = _data(rng)
    n, p = X.shape
    Q = {"kind": "Quadratic"}
    al = 0.1 * _amax(X, y, Q, fi)
    wts = rng.uniform(0.5, 2.0, p)

    def pair(a, b, prob):
        f.meta["exc"] = [a["exc"], b["exc"]]
        _compare(f, "agree", prob, a["w"], b["w"], a["reported"], b["reported"])
    try:
        if kind == "unit_weights_l1":
            a = _run("AndersonCD", X, y, Q, {"kind": "WeightedL1", "alpha": al, "weights": np.ones(p).tolist(), "positive": False}, fi, st)
            b = _run("AndersonCD", X, y, Q, {"kind": "L1", "alpha": al, "positive": False}, fi, st)
            pair(a, b, dict(X=X, y=y, datafit=Q, penalty={"kind": "L1", "alpha": al, "positive": False}, fit_intercept=fi))
        elif kind == "unit_weights_mcp":
            pm = {"kind": "MCPenalty", "alpha": al, "gamma": 5.0, "positive": False}
            a = _run("AndersonCD", X, y, Q, dict(pm, kind="WeightedMCPenalty", weights=np.ones(p).tolist()), fi, st)
            b = _run("AndersonCD", X, y, Q, pm, fi, st)
            pair(a, b, dict(X=X, y=y, datafit=Q, penalty=pm, fit_intercept=fi))
        elif kind in ("unit_weights_group", "singleton_groups"):
            if kind == "singleton_groups":
                ptr, idx = list(range(p + 1)), [int(v) for v in rng.permutation(p)]
                gw = [float(wts[j]) for j in idx]
                ref_pen = {"kind": "WeightedL1", "alpha": al, "weights": wts.tolist(), "positive": False}
                b = _run("AndersonCD", X, y, Q, ref_pen, fi, st)
            else:
                ptr, idx = gen.groups_random(rng, p, 3, permuted=True)
                gw = np.ones(len(ptr) - 1).tolist()
                ref_pen = None
            gp = {"kind": "WeightedGroupL2", "alpha": al, "weights": gw, "grp_ptr": ptr, "grp_indices": idx, "positive": False}
            a = _run("GroupBCD", X, y, {"kind": "QuadraticGroup", "grp_ptr": ptr, "grp_indices": idx}, gp, fi, st)
            if ref_pen is None:
                est = skglm.GroupLasso(groups=[idx[ptr[g]:ptr[g + 1]] for g in range(len(ptr) - 1)], alpha=al,
                                       fit_intercept=fi, tol=TOL)
                with warnings.catch_warnings():
                    warnings.simplefilter("ignore")
                    est.fit(X, y)
                b = dict(w=_est_w(est, fi), exc=None, reported=est.stop_crit_ <= 10 * TOL)
            pair(a, b, dict(X=X, y=y, datafit=Q, penalty=gp, fit_intercept=fi))
        elif kind == "l1_ratio_one":
            a = _run("AndersonCD", X, y, Q, {"kind": "L1_plus_L2", "alpha": al, "l1_ratio": 1.0, "positive": False}, fi, st)
            b = _run("AndersonCD", X, y, Q, {"kind": "L1", "alpha": al, "positive": False}, fi, st)
            pair(a, b, dict(X=X, y=y, datafit=Q, penalty={"kind": "L1", "alpha": al, "positive": False}, fit_intercept=fi))
        elif kind in ("one_task", "block_mcp_one_task"):
            Y = y.reshape(-1, 1)
            if kind == "one_task":
                pa, pb = {"kind": "L2_1", "alpha": al}, {"kind": "L1", "alpha": al, "positive": False}
            else:
                pa = {"kind": "BlockMCPenalty", "alpha": al, "gamma": 5.0}
                pb = {"kind": "MCPenalty", "alpha": al, "gamma": 5.0, "positive": False}
            a = _run("MultiTaskBCD", X, Y, {"kind": "QuadraticMultiTask"}, pa, fi, st)
            if a["w"] is not None:
                a["w"] = a["w"][:, 0]
            b = _run("AndersonCD", X, y, Q, pb, fi, st)
            pair(a, b, dict(X=X, y=y, datafit=Q, penalty=pb, fit_intercept=fi))
        elif kind == "constant_slope":
            a = _run("FISTA", X, y, Q, {"kind": "SLOPE", "alphas": (al * np.ones(p)).tolist()}, False, st,
                     max_iter=20000, opt_strategy="fixpoint", tol=1e-9)
            b = _run("AndersonCD", X, y, Q, {"kind": "L1", "alpha": al, "positive": False}, False, st)
            a["reported"] = a["exc"] is None and a["crit"] < 1e-8
            pair(a, b, dict(X=X, y=y, datafit=Q, penalty={"kind": "L1", "alpha": al, "positive": False}, fit_intercept=False))
        elif kind == "big_gamma_mcp":
            a = _run("AndersonCD", X, y, Q, {"kind": "MCPenalty", "alpha": al, "gamma": 1e9, "positive": False}, fi, st)
            b = _run("AndersonCD", X, y, Q, {"kind": "L1", "alpha": al, "positive": False}, fi, st)
            pair(a, b, dict(X=X, y=y, datafit=Q, penalty={"kind": "L1", "alpha": al, "positive": False}, fit_intercept=fi))
        elif kind == "big_delta_huber":
            pen = {"kind": "L1", "alpha": al, "positive": False}
            a = _run("AndersonCD", X, y, {"kind": "Huber", "delta": 1e6}, pen, fi, st)
            b = _run("AndersonCD", X, y, Q, pen, fi, st)
            pair(a, b, dict(X=X, y=y, datafit=Q, penalty=pen, fit_intercept=fi))
        elif kind == "unit_sample_weights":
            pen = {"kind": "L1", "alpha": al, "positive": False}
            a = _run("AndersonCD", X, y, {"kind": "WeightedQuadratic", "sample_weights": np.ones(n).tolist()}, pen, fi, st)
            b = _run("AndersonCD", X, y, Q, pen, fi, st)
            pair(a, b, dict(X=X, y=y, datafit=Q, penalty=pen, fit_intercept=fi))
        elif kind == "integer_sample_weights":
            sw = rng.integers(0, 4, n).astype(float)
            sw[0] = 2.0
            rep = np.repeat(np.arange(n), sw.astype(int))
            Xr, yr = np.asfortranarray(X[rep]), y[rep]
            alr = 0.1 * _amax(Xr, yr, Q, fi)
            pen = {"kind": "L1", "alpha": alr, "positive": False}
            a = _run("AndersonCD", X, y, {"kind": "WeightedQuadratic", "sample_weights": sw.tolist()}, pen, fi, st)
            b = _run("AndersonCD", Xr, yr, Q, pen, fi, st)
            pair(a, b, dict(X=Xr, y=yr, datafit=Q, penalty=pen, fit_intercept=fi))
        elif kind == "sparse_group_zero_group_weights":
            # WeightedL1GroupL2 with zero group weights is the weighted L1 of its feature weights, whatever the layout
            # of the groups (interleaved, unordered) and with pairwise different feature weights
            ptr, idx = gen.groups_random(rng, p, 3, permuted=True)
            wf = rng.uniform(0.3, 3.0, p)
            sg = {"kind": "WeightedL1GroupL2", "alpha": al, "weights_groups": [0.0] * (len(ptr) - 1),
                  "weights_features": wf.tolist(), "grp_ptr": ptr, "grp_indices": idx}
            a = _run("GroupBCD", X, y, {"kind": "QuadraticGroup", "grp_ptr": ptr, "grp_indices": idx}, sg, fi, st,
                     ws_strategy="fixpoint")
            ref_pen = {"kind": "WeightedL1", "alpha": al, "weights": wf.tolist(), "positive": False}
            b = _run("AndersonCD", X, y, Q, ref_pen, fi, st)
            pair(a, b, dict(X=X, y=y, datafit=Q, penalty=ref_pen, fit_intercept=fi))
        elif kind in ("efron_no_ties", "efron_no_tied_events"):
            Xs, ys = _data(rng, "surv")
            ys[:, 0] = rng.permutation(len(ys)) + 1.0          # no ties
            if kind == "efron_no_tied_events":
                # censored subjects may share their time with an event: Efron only corrects for TIED EVENTS
                ys[:, 1] = 1.0
                cens = rng.choice(len(ys), len(ys) // 3, replace=False)
                ev = np.setdiff1d(np.arange(len(ys)), cens)
                ys[cens, 1] = 0.0
                ys[cens, 0] = ys[rng.choice(ev, len(cens)), 0]
            pen = {"kind": "L1", "alpha": 0.05, "positive": False}
            a = _run("ProxNewton", Xs, ys, {"kind": "Cox", "use_efron": True}, pen, False, st)
            b = _run("ProxNewton", Xs, ys, {"kind": "Cox", "use_efron": False}, pen, False, st)
            pair(a, b, dict(X=Xs, y=ys, datafit={"kind": "Cox", "use_efron": False}, penalty=pen, fit_intercept=False))
        elif kind in ("gram_vs_cd", "gram_vs_cd_acc", "gram_greedy_vs_cyclic"):
            Xc = gen.design(rng, n, p, rho=0.9)
            yc = gen.target(rng, Xc, "reg", offset=0.0)
            alc = 0.02 * _amax(Xc, yc, Q, False)
            pen = {"kind": "L1", "alpha": alc, "positive": False}
            if fi:      # (GramCD has no intercept: the flag selects an index-dependent penalty instead)
                pen = {"kind": "WeightedL1", "alpha": alc, "weights": rng.uniform(0.3, 3.0, p).tolist(), "positive": False}
            kw = dict(use_acc=kind == "gram_vs_cd_acc", greedy_cd=kind == "gram_greedy_vs_cyclic", max_iter=20000)
            a = _run("GramCD", Xc, yc, None, pen, False, st, **kw)
            b = _run("AndersonCD", Xc, yc, Q, pen, False, st)
            pair(a, b, dict(X=Xc, y=yc, datafit=Q, penalty=pen, fit_intercept=False))
        elif kind.startswith("estimator_vs_gle"):
            from skglm import datafits as D, penalties as Pn, solvers as S
            which = kind.split("_")[-1]
            Xs = sparse.csc_matrix(X) if st == "csc" else X
            if which in ("logreg", "svc"):
                Xc, yc = _data(rng, "clf")
                Xs = sparse.csc_matrix(Xc) if st == "csc" else Xc
                if which == "logreg":
                    alc = 0.1 * float(np.max(np.abs(Xc.T @ yc))) / (2 * n)
                    e1 = skglm.SparseLogisticRegression(alpha=alc, fit_intercept=fi, tol=TOL)
                    e2 = skglm.GeneralizedLinearEstimator(D.Logistic(), Pn.L1(alc), S.ProxNewton(fit_intercept=fi, tol=TOL))
                    prob = dict(X=Xc, y=yc, datafit={"kind": "Logistic"}, penalty={"kind": "L1", "alpha": alc, "positive": False}, fit_intercept=fi)
                else:
                    fi = False
                    e1 = skglm.LinearSVC(C=0.5, tol=TOL)
                    e2 = skglm.GeneralizedLinearEstimator(D.QuadraticSVC(), Pn.IndicatorBox(0.5), S.AndersonCD(fit_intercept=False, tol=TOL))
                    prob = None
                yy = yc
            else:
                yy = y
                if which == "lasso":
                    e1 = skglm.Lasso(alpha=al, fit_intercept=fi, tol=TOL)
                    e2 = skglm.GeneralizedLinearEstimator(D.Quadratic(), Pn.L1(al), S.AndersonCD(fit_intercept=fi, tol=TOL))
                    pen = {"kind": "L1", "alpha": al, "positive": False}
                elif which == "enet":
                    e1 = skglm.ElasticNet(alpha=al, l1_ratio=0.4, fit_intercept=fi, tol=TOL)
                    e2 = skglm.GeneralizedLinearEstimator(D.Quadratic(), Pn.L1_plus_L2(al, 0.4), S.AndersonCD(fit_intercept=fi, tol=TOL))
                    pen = {"kind": "L1_plus_L2", "alpha": al, "l1_ratio": 0.4, "positive": False}
                else:
                    e1 = skglm.MCPRegression(alpha=al, gamma=5.0, fit_intercept=fi, tol=TOL)
                    e2 = skglm.GeneralizedLinearEstimator(D.Quadratic(), Pn.MCPenalty(al, 5.0), S.AndersonCD(fit_intercept=fi, tol=TOL))
                    pen = {"kind": "MCPenalty", "alpha": al, "gamma": 5.0, "positive": False}
                prob = dict(X=X, y=y, datafit=Q, penalty=pen, fit_intercept=fi)
            with warnings.catch_warnings():
                warnings.simplefilter("ignore")
                e1.fit(Xs, yy)
                e2.fit(Xs, yy)
            w1, w2 = _est_w(e1, fi), _est_w(e2, fi)
            if prob is None:
                f.le("agree", float(np.max(np.abs(w1 - w2))), 1e-6 * max(1.0, float(np.abs(w1).max())))
            else:
                _compare(f, "agree", prob, w1, w2, e1.stop_crit_ <= 10 * TOL, e2.stop_crit_ <= 10 * TOL)
            f.meta["exc"] = [None, None]
    except BaseException as e:  # noqa: BLE001
        if isinstance(e, (KeyboardInterrupt, SystemExit)):
            raise
        f.meta["exc"] = [type(e).__name__, str(e)[:200]]
        f.flag("runs", False)
    return f.trace()


# ------------------------------------------------------------------ C15 symmetries
def _sym_problem(solver, rng, fi):
    """-> X, y, solver name, dfd, pend, kw, extra"""
    s = solver
    if s in ("AndersonCD_Logistic", "ProxNewton_Logistic", "ProxNewton_WeightedL1", "GroupProxNewton"):
        X, y = _data(rng, "clf")
    elif s == "ProxNewton_Cox":
        X, y = _data(rng, "surv")
    elif s == "MultiTaskBCD":
        X, y = _data(rng, "reg", tasks=3)
    else:
        X, y = _data(rng, "reg")
    n, p = X.shape
    extra = {}
    if s in ("AndersonCD_L1", "GramCD", "FISTA"):
        dfd = {"kind": "Quadratic"}
        pend = {"kind": "L1", "alpha": 0.1 * _amax(X, y, dfd, fi), "positive": False}
        name = s.split("_")[0]
    elif s == "AndersonCD_WeightedL1":
        dfd = {"kind": "Quadratic"}
        w = rng.uniform(0.5, 2.0, p)
        w[rng.choice(p, 2, replace=False)] = 0.0
        pend = {"kind": "WeightedL1", "alpha": 0.1 * _amax(X, y, dfd, fi), "weights": w.tolist(), "positive": False}
        name = "AndersonCD"
    elif s == "AndersonCD_MCP":
        dfd = {"kind": "Quadratic"}
        pend = {"kind": "MCPenalty", "alpha": 0.1 * _amax(X, y, dfd, fi), "gamma": 8.0, "positive": False}
        name = "AndersonCD"
    elif s == "ProxNewton_WeightedL1":
        dfd = {"kind": "Logistic"}
        w = rng.uniform(0.3, 2.5, p)
        w[rng.choice(p, 2, replace=False)] = 0.0
        pend = {"kind": "WeightedL1", "alpha": 0.1 * _amax(X, y, dfd, fi), "weights": w.tolist(), "positive": False}
        name = "ProxNewton"
    elif s in ("AndersonCD_Logistic", "ProxNewton_Logistic"):
        dfd = {"kind": "Logistic"}
        pend = {"kind": "L1", "alpha": 0.1 * _amax(X, y, dfd, fi), "positive": False}
        name = s.split("_")[0]
    elif s == "ProxNewton_Cox":
        dfd = {"kind": "Cox", "use_efron": bool(rng.integers(2))}
        pend = {"kind": "L1", "alpha": 0.03, "positive": False}
        name = "ProxNewton"
    elif s == "GroupBCD_SparseGroup":
        ptr, idx = gen.groups_random(rng, p, 3, permuted=True)
        dfd = {"kind": "QuadraticGroup", "grp_ptr": ptr, "grp_indices": idx}
        al = 0.05 * _amax(X, y, {"kind": "Quadratic"}, fi)
        pend = {"kind": "WeightedL1GroupL2", "alpha": al, "weights_groups": rng.uniform(0.5, 2.0, len(ptr) - 1).tolist(),
                "weights_features": rng.uniform(0.2, 2.0, p).tolist(), "grp_ptr": ptr, "grp_indices": idx}
        name = "GroupBCD"
        extra = dict(ws_strategy="fixpoint")
    elif s in ("GroupBCD", "GroupProxNewton"):
        ptr, idx = gen.groups_random(rng, p, 3, permuted=True)
        gw = rng.uniform(0.5, 2.0, len(ptr) - 1).tolist()
        dk = "QuadraticGroup" if s == "GroupBCD" else "LogisticGroup"
        dfd = {"kind": dk, "grp_ptr": ptr, "grp_indices": idx}
        base = {"kind": "Quadratic"} if s == "GroupBCD" else {"kind": "Logistic"}
        prob0 = dict(X=X, y=y, datafit=base, penalty={"kind": "L2", "alpha": 0}, fit_intercept=fi)
        al = 0.1 * _amax(X, y, base, fi)
        pend = {"kind": "WeightedGroupL2", "alpha": al, "weights": gw, "grp_ptr": ptr, "grp_indices": idx, "positive": False}
        name = s
    elif s == "MultiTaskBCD":
        dfd = {"kind": "QuadraticMultiTask"}
        pend = {"kind": "L2_1", "alpha": 0.1 * _amax(X, y, dfd, fi)}
        name = s
    return X, y, name, dfd, pend, extra


def run_c15(inst, seed, tid):
    kind, s, st, fi = inst["kind"], inst["solver"], inst["storage"], bool(inst["fit_intercept"])
    rng = gen.rng_for(seed, "c15", json.dumps(inst, sort_keys=True))
    f = rel.Facts(tid, dict(inst, seed=seed))
    if s in ("GramCD", "FISTA", "ProxNewton_Cox"):
        fi = False
    if st == "csc" and s in ("GroupProxNewton", "ProxNewton_Cox"):
        st = "dense"
    try:
        X, y, name, dfd, pend, extra = _sym_problem(s, rng, fi)
        n, p = X.shape
        kw = {}
        if name == "FISTA":
            kw = dict(max_iter=50000, tol=1e-9)
        if name == "GramCD":
            kw = dict(max_iter=20000)
        kw.update(extra)
        if name == "ProxNewton" and dfd["kind"] == "Cox" and kind.startswith("stack"):
            dfd = dict(dfd, use_efron=False)      # the Efron tie correction is not invariant under replication
        sdf = (lambda d: None) if name == "GramCD" else (lambda d: d)    # GramCD fits Quadratic implicitly
        a = _run(name, X, y, sdf(dfd), pend, fi, st, **kw)
        X2, y2, dfd2, pend2 = X, y, dict(dfd), dict(pend)
        back = lambda w: w                                       # noqa: E731  (maps w2 into original coordinates)
        T = None if np.ndim(y) == 1 or dfd["kind"] == "Cox" else y.shape[1]

        def unperm_feat(perm):
            def g(w2):
                w = np.zeros_like(w2)
                w[perm] = w2[:p]
                if fi:
                    w[p:] = w2[p:]
                return w
            return g
        if kind in ("perm_features", "perm_features_weights"):
            perm = rng.permutation(p)
            X2 = np.asfortranarray(X[:, perm])
            inv = np.argsort(perm)
            if "weights" in pend and pend["kind"] in ("WeightedL1", "WeightedMCPenalty"):
                pend2["weights"] = list(np.asarray(pend["weights"])[perm])
            if "weights_features" in pend:
                pend2["weights_features"] = list(np.asarray(pend["weights_features"])[perm])
            if "grp_indices" in pend:
                newidx = [int(inv[j]) for j in pend["grp_indices"]]
                pend2["grp_indices"] = newidx
                dfd2["grp_indices"] = newidx
            back = unperm_feat(perm)
        elif kind == "perm_groups":
            ptr, idx = pend["grp_ptr"], pend["grp_indices"]
            G = len(ptr) - 1
            gp = rng.permutation(G)
            nidx, nptr, nw = [], [0], []
            for g in gp:
                nidx += idx[ptr[g]:ptr[g + 1]]
                nptr.append(len(nidx))
                nw.append((pend.get("weights") or pend.get("weights_groups"))[g])
            pend2.update(grp_ptr=nptr, grp_indices=nidx)
            pend2["weights" if "weights" in pend else "weights_groups"] = nw
            dfd2.update(grp_ptr=nptr, grp_indices=nidx)
        elif kind == "perm_within_group":
            ptr, idx = pend["grp_ptr"], list(pend["grp_indices"])
            for g in range(len(ptr) - 1):
                seg = idx[ptr[g]:ptr[g + 1]]
                idx[ptr[g]:ptr[g + 1]] = [seg[i] for i in rng.permutation(len(seg))]
            pend2["grp_indices"] = idx
            dfd2["grp_indices"] = idx
        elif kind == "perm_tasks":
            tp = rng.permutation(T)
            y2 = np.asfortranarray(y[:, tp])
            back = lambda w2: w2[:, np.argsort(tp)]             # noqa: E731
        elif kind == "perm_samples":
            sp = rng.permutation(n)
            X2, y2 = np.asfortranarray(X[sp]), y[sp]
        elif kind in ("stack_2", "stack_3"):
            k = int(kind[-1])
            X2, y2 = np.asfortranarray(np.vstack([X] * k)), np.concatenate([y] * k)
        elif kind == "scale_y_alpha":
            c = 3.0
            y2 = y * c
            pend2["alpha"] = pend["alpha"] * c
            back = lambda w2: w2 / c                            # noqa: E731
        elif kind == "scale_feature_weight":
            j, c = 1, 4.0
            X2 = X.copy()
            X2[:, j] *= c
            X2 = np.asfortranarray(X2)
            ww = list(pend["weights"])
            ww[j] = ww[j] / c if False else ww[j] * 1.0
            # |w_j| weight_j with x_j -> c x_j : w_j -> w_j / c and weight_j -> c weight_j
            ww[j] = pend["weights"][j] * c
            pend2["weights"] = ww

            def back(w2, j=j, c=c):
                w = w2.copy()
                w[j] = w2[j] * c
                return w
        b = _run(name, X2, y2, sdf(dfd2), pend2, fi, st, **kw)
        f.meta["exc"] = [a["exc"], b["exc"]]
        base = {"QuadraticGroup": {"kind": "Quadratic"}, "LogisticGroup": {"kind": "Logistic"}}.get(dfd["kind"], dfd)
        prob = dict(X=X, y=y, datafit=base, penalty=pend, fit_intercept=fi)
        w2 = None if b["w"] is None else back(b["w"])
        _compare(f, "equivariant", prob, a["w"], w2, a["reported"], b["reported"])
        f.flag("runs", a["exc"] is None and b["exc"] is None)
    except BaseException as e:  # noqa: BLE001
        if isinstance(e, (KeyboardInterrupt, SystemExit)):
            raise
        f.meta["exc"] = [type(e).__name__, str(e)[:200]]
        f.flag("runs", False)
    return f.trace()


# ------------------------------------------------------------------ C16 critical strength
def _null_unpen(X, y, loss, fi, unpen_cols):
    """optimal unpenalised part (intercept and zero-weight features) with all penalised coefs at 0"""
    n, p = X.shape
    cols = [X[:, j] for j in unpen_cols]
    if fi:
        cols.append(np.ones(n))
    if not cols:
        return np.zeros(0), np.zeros(n if np.ndim(y) == 1 else y.shape)
    A = np.column_stack(cols)
    if loss == "Quadratic":
        th = np.linalg.lstsq(A, y, rcond=None)[0]
        return th, A @ th
    th = np.zeros(A.shape[1])
    for _ in range(200):                                        # Newton for the logistic loss
        z = A @ th
        g = A.T @ (-y / (1 + np.exp(y * z))) / n
        e = np.exp(-y * z)
        h = e / (1 + e) ** 2 / n
        H = A.T @ (h[:, None] * A)
        step = np.linalg.solve(H + 1e-12 * np.eye(len(th)), g)
        th = th - step
        if np.max(np.abs(step)) < 1e-14:
            break
    return th, A @ th


def run_c16(inst, seed, tid):
    import skglm
    from scipy import sparse
    kind, s, st, fi = inst["kind"], inst["solver"], inst["storage"], bool(inst["fit_intercept"])
    rng = gen.rng_for(seed, "c16", json.dumps(inst, sort_keys=True))
    f = rel.Facts(tid, dict(inst, seed=seed))
    try:
        logistic = kind in ("Logistic_L1", "LogisticGroup")
        if kind == "LogisticGroup":
            st = "dense"                      # LogisticGroup has no CSC accessors
        tasks = 3 if kind == "MultiTask" else 1
        X, y = _data(rng, "clf" if logistic else "reg", tasks=tasks, offset=2.0)
        n, p = X.shape
        if s in ("GramCD", "FISTA"):
            fi = False
        wts = np.ones(p)
        if kind in ("WeightedL1", "WeightedMCPenalty", "WeightedL1_zeros"):
            wts = rng.uniform(0.5, 2.0, p)
        if kind == "WeightedL1_zeros":
            wts[rng.choice(p, 2, replace=False)] = 0.0
        unpen = [j for j in range(p) if wts[j] == 0]
        loss = "Logistic" if logistic else "Quadratic"
        if tasks > 1:
            mu = y.mean(axis=0) if fi else 0.0
            R = y - mu
            g0 = X.T @ R / n
            astar = float(np.max(np.linalg.norm(g0, axis=1)))
            ptr = idx = gw = None
        else:
            th, z0 = _null_unpen(X, y, loss, fi, unpen)
            if loss == "Quadratic":
                g0 = X.T @ (z0 - y) / n
            else:
                g0 = X.T @ (-y / (1 + np.exp(y * z0))) / n
            ptr = idx = gw = None
            if kind in ("GroupLasso", "GroupLasso_weights", "LogisticGroup"):
                ptr, idx = gen.groups_random(rng, p, 3, permuted=True)
                gw = np.ones(len(ptr) - 1) if kind != "GroupLasso_weights" else rng.uniform(0.5, 2.0, len(ptr) - 1)
                astar = max(np.linalg.norm(g0[idx[ptr[g]:ptr[g + 1]]]) / gw[g] for g in range(len(ptr) - 1))
            else:
                pen_mask = wts != 0
                astar = float(np.max(np.abs(g0[pen_mask]) / wts[pen_mask]))
        l1r = 0.5

        def pen_at(alpha):
            if kind == "L1" or kind == "Logistic_L1":
                return {"kind": "L1", "alpha": alpha, "positive": False}
            if kind == "L1_plus_L2":
                return {"kind": "L1_plus_L2", "alpha": alpha, "l1_ratio": l1r, "positive": False}
            if kind in ("WeightedL1", "WeightedL1_zeros"):
                return {"kind": "WeightedL1", "alpha": alpha, "weights": wts.tolist(), "positive": False}
            if kind == "MCPenalty":
                return {"kind": "MCPenalty", "alpha": alpha, "gamma": 5.0, "positive": False}
            if kind == "WeightedMCPenalty":
                return {"kind": "WeightedMCPenalty", "alpha": alpha, "gamma": 5.0, "weights": wts.tolist(), "positive": False}
            if kind == "MultiTask":
                return {"kind": "L2_1", "alpha": alpha}
            return {"kind": "WeightedGroupL2", "alpha": alpha, "weights": list(map(float, gw)), "grp_ptr": ptr,
                    "grp_indices": idx, "positive": False}
        if kind == "L1_plus_L2":
            astar = astar / l1r                      # the l1 part carries l1_ratio * alpha
        # ---- the library's own alpha_max must be the critical value of the documented objective
        from .. import skl
        po = skl.penalty(pen_at(1.0))
        if hasattr(po, "alpha_max") and tasks == 1 and ptr is None and not unpen and not fi:
            am = float(po.alpha_max(g0))
            f.approx("alpha_max_eq", am, astar, 1e-12, 1e-9)
        if ptr is not None and loss == "Quadratic" and not fi:
            from skglm.utils.data import _alpha_max_group_lasso
            am = float(_alpha_max_group_lasso(X, y, np.array(idx, dtype=np.int32), np.array(ptr, dtype=np.int32),
                                              np.asarray(gw, dtype=float)))
            f.approx("alpha_max_eq", am, astar, 1e-12, 1e-9)
        dfd = {"kind": "QuadraticMultiTask"} if tasks > 1 else ({"kind": "Logistic"} if logistic else {"kind": "Quadratic"})
        if ptr is not None:
            dfd = {"kind": "LogisticGroup" if logistic else "QuadraticGroup", "grp_ptr": ptr, "grp_indices": idx}
        base = {"kind": "Logistic"} if logistic else ({"kind": "QuadraticMultiTask"} if tasks > 1 else {"kind": "Quadratic"})
        for tag, factor in (("null", 1.001), ("nonnull", 0.97)):
            alpha = astar * factor
            pend = pen_at(alpha)
            if s == "estimator":
                Xs = sparse.csc_matrix(X) if st == "csc" else X
                if kind in ("L1",):
                    est = skglm.Lasso(alpha=alpha, fit_intercept=fi, tol=TOL)
                elif kind == "L1_plus_L2":
                    est = skglm.ElasticNet(alpha=alpha, l1_ratio=l1r, fit_intercept=fi, tol=TOL)
                elif kind in ("WeightedL1", "WeightedL1_zeros"):
                    est = skglm.WeightedLasso(alpha=alpha, weights=wts, fit_intercept=fi, tol=TOL)
                elif kind == "MCPenalty":
                    est = skglm.MCPRegression(alpha=alpha, gamma=5.0, fit_intercept=fi, tol=TOL)
                elif kind == "WeightedMCPenalty":
                    est = skglm.MCPRegression(alpha=alpha, gamma=5.0, weights=wts, fit_intercept=fi, tol=TOL)
                elif kind == "MultiTask":
                    est = skglm.MultiTaskLasso(alpha=alpha, fit_intercept=fi, tol=TOL)
                elif kind == "Logistic_L1":
                    est = skglm.SparseLogisticRegression(alpha=alpha, fit_intercept=fi, tol=TOL)
                else:
                    est = skglm.GroupLasso(groups=[idx[ptr[g]:ptr[g + 1]] for g in range(len(ptr) - 1)], alpha=alpha,
                                           weights=np.asarray(gw, dtype=float), fit_intercept=fi, tol=TOL)
                with warnings.catch_warnings():
                    warnings.simplefilter("ignore")
                    est.fit(Xs if kind not in ("GroupLasso", "GroupLasso_weights") else X, y)
                w = _est_w(est, fi)
                exc = None
                claimed = bool(np.max(getattr(est, "stop_crit_", 0.0)) <= 10 * TOL)
            else:
                kw = {}
                if s == "FISTA":
                    kw = dict(max_iter=50000, tol=1e-9)
                if s == "GramCD":
                    kw = dict(max_iter=20000)
                if s == "AndersonCD" and logistic and fi:
                    # the damped intercept step of Logistic (known finding KF-logistic-intercept-step) needs many
                    # outer iterations at the null solution; the default budget stops short and SAYS so
                    kw = dict(max_iter=3000)
                r = _run(s, X, y, None if s == "GramCD" else dfd, pend, fi, st, **kw)
                w, exc = r["w"], r["exc"]
                claimed = bool(r["reported"])
            f.meta.setdefault("exc", []).append(exc)
            f.flag("runs", exc is None)
            if exc is not None:
                continue
            coef = np.asarray(w)[:p]
            pen_rows = np.ones(p, bool) if tasks > 1 or ptr is not None else (wts != 0)
            nz = bool(np.any(coef.reshape(p, -1)[pen_rows] != 0))
            if tag == "null":
                f.flag("null", not nz)
                prob = dict(X=X, y=y, datafit=base, penalty=pend, fit_intercept=fi)
                # with zero penalised coefficients the unpenalised part must be the loss minimiser
                # (budgets are generous for these tiny problems: a run that exhausts them is not returning the
                #  optimal unpenalised part; `claimed` is kept as information)
                f.meta.setdefault("claimed", []).append(claimed)
                f.le("null_unpenalised_optimal", PB.violation(prob, w)[0], 1e-6 * PB.null_scale(prob))
            else:
                f.flag("nonnull", nz)
    except BaseException as e:  # noqa: BLE001
        if isinstance(e, (KeyboardInterrupt, SystemExit)):
            raise
        f.meta["exc"] = [type(e).__name__, str(e)[:200]]
        f.flag("runs", False)
    return f.trace()


# ------------------------------------------------------------------ C02 reference optima
def run_c02(inst, seed, tid):
    import skglm
    from scipy import sparse
    kind, s, st, fi = inst["kind"], inst["solver"], inst["storage"], bool(inst["fit_intercept"])
    rng = gen.rng_for(seed, "c02", kind, st, fi, s in ("GramCD_acc", "GramCD", "AndersonCD_fixpoint",
                                                        "MultiTaskBCD", "GroupBCD"))
    f = rel.Facts(tid, dict(inst, seed=seed))
    try:
        import sklearn.linear_model as sk
        frac = [0.5, 0.1, 0.02][int(rng.integers(3))]
        rho = [0.0, 0.6, 0.95][int(rng.integers(3))]
        if s in ("GramCD_acc", "GramCD", "AndersonCD_fixpoint", "MultiTaskBCD", "GroupBCD"):
            frac, rho = 0.02, 0.95          # slow convergence: Anderson extrapolations are attempted and accepted
        positive = "positive" in kind
        Q = {"kind": "Quadratic"}
        if kind in ("quantile_linprog", "sqrtlasso_fixedpoint"):
            fi = False
        if s in ("GramCD", "GramCD_acc", "GramCD_warm", "FISTA", "FISTA_warm", "PDCD_WS") or kind == "svc_sklearn":
            fi_s = False
        else:
            fi_s = fi
        if fi_s != fi:
            fi = False
        n, p = N, P
        if kind.startswith(("lasso", "enet")):
            X = gen.design(rng, n, p, rho=rho)
            y = gen.target(rng, X, "reg", offset=1.0)
            al = frac * _amax(X, y, Q, fi)
            l1r = 1.0 if kind.startswith("lasso") else 0.5
            pend = {"kind": "L1", "alpha": al, "positive": positive} if l1r == 1.0 else \
                {"kind": "L1_plus_L2", "alpha": al, "l1_ratio": l1r, "positive": positive}
            prob = dict(X=X, y=y, datafit=Q, penalty=pend, fit_intercept=fi)
            if kind == "lasso_celer":
                import celer
                ref = celer.Lasso(alpha=al, fit_intercept=fi, tol=1e-12, max_iter=500, max_epochs=100000).fit(X, y)
            elif l1r == 1.0:
                ref = sk.Lasso(alpha=al, fit_intercept=fi, tol=1e-14, max_iter=10 ** 6, positive=positive).fit(X, y)
            else:
                ref = sk.ElasticNet(alpha=al, l1_ratio=l1r, fit_intercept=fi, tol=1e-14, max_iter=10 ** 6,
                                    positive=positive).fit(X, y)
            wref = _est_w(ref, fi)
            w, rep = _skglm_solve_reg(s, X, y, Q, pend, fi, st, al, l1r, positive)
        elif kind == "logreg_l1_sklearn":
            X, y = _data(rng, "clf", rho=rho)
            dfd = {"kind": "Logistic"}
            al = frac * _amax(X, y, dfd, fi)
            pend = {"kind": "L1", "alpha": al, "positive": False}
            prob = dict(X=X, y=y, datafit=dfd, penalty=pend, fit_intercept=fi)
            ref = sk.LogisticRegression(penalty="l1", C=1 / (al * n), fit_intercept=fi, tol=1e-12, solver="liblinear",
                                        max_iter=10 ** 5, intercept_scaling=1e4 if fi else 1.0).fit(X, y)
            wref = _est_w(ref, fi)
            if s == "SparseLogisticRegression":
                e = skglm.SparseLogisticRegression(alpha=al, fit_intercept=fi, tol=TOL)
                with warnings.catch_warnings():
                    warnings.simplefilter("ignore")
                    e.fit(sparse.csc_matrix(X) if st == "csc" else X, y)
                w, rep = _est_w(e, fi), e.stop_crit_ <= 10 * TOL
            else:
                kw = dict(max_iter=100000, tol=1e-9) if s == "FISTA" else {}
                r = _run(s, X, y, dfd, pend, fi, st, **kw)
                w, rep = r["w"], r["reported"] or (s == "FISTA" and r["exc"] is None and r["crit"] < 1e-8)
            # liblinear penalises its (scaled) intercept slightly: compare objectives with a looser bound
            f.meta["ref_note"] = "liblinear"
        elif kind == "svc_sklearn":
            X, y = _data(rng, "clf", rho=rho)
            C = [0.1, 1.0][int(rng.integers(2))]
            yXT = (X * y[:, None]).T
            dfd, pend = {"kind": "QuadraticSVC"}, {"kind": "IndicatorBox", "alpha": C}
            prob = None
            ref = __import__("sklearn.svm", fromlist=["LinearSVC"]).LinearSVC(
                C=C, loss="hinge", fit_intercept=False, tol=1e-12, max_iter=10 ** 6, dual=True,
                random_state=0).fit(X, y)
            beta_ref = ref.coef_.ravel()
            if s == "LinearSVC":
                e = skglm.LinearSVC(C=C, tol=TOL)
                with warnings.catch_warnings():
                    warnings.simplefilter("ignore")
                    e.fit(sparse.csc_matrix(X) if st == "csc" else X, y)
                beta, rep = e.coef_.ravel(), e.stop_crit_ <= 10 * TOL
            else:
                kw = dict(max_iter=200000, tol=1e-9) if s == "FISTA" else {}
                r = _run(s, np.asfortranarray(yXT), y, dfd, pend, False, st, **kw)
                beta = None if r["w"] is None else yXT @ r["w"]
                rep = r["reported"] or (s == "FISTA" and r["exc"] is None and r["crit"] < 1e-8)

            def primal(b):
                return C * np.maximum(0, 1 - y * (X @ b)).sum() + 0.5 * b @ b
            ok = bool(rep and beta is not None)
            # a converged run attains the reference optimum; liblinear itself may stop short of it (it shuffles
            # coordinates and warns), so the reverse gap only switches the comparison of minimisers off
            gap = (primal(beta) - primal(beta_ref)) if ok else 0.0
            tolp = 1e-5 * max(1.0, abs(primal(beta_ref)))
            f.le("agree", gap, tolp, when=ok)
            f.meta["reference_gap"] = float(-gap)
            f.le("unique_same_w", (float(np.max(np.abs(beta - beta_ref))) if ok else 0.0),
                 1e-3 * max(1.0, float(np.abs(beta_ref).max())), when=ok and abs(gap) <= tolp)
            return f.trace()
        elif kind == "multitask_sklearn":
            X = gen.design(rng, n, p, rho=rho)
            Y = gen.target(rng, X, "reg", n_tasks=3, offset=1.0)
            dfd = {"kind": "QuadraticMultiTask"}
            al = frac * _amax(X, Y, dfd, fi)
            pend = {"kind": "L2_1", "alpha": al}
            prob = dict(X=X, y=Y, datafit=dfd, penalty=pend, fit_intercept=fi)
            ref = sk.MultiTaskLasso(alpha=al, fit_intercept=fi, tol=1e-14, max_iter=10 ** 6).fit(X, Y)
            wref = _est_w(ref, fi)
            if s == "MultiTaskLasso":
                e = skglm.MultiTaskLasso(alpha=al, fit_intercept=fi, tol=TOL)
                with warnings.catch_warnings():
                    warnings.simplefilter("ignore")
                    e.fit(sparse.csc_matrix(X) if st == "csc" else X, Y)
                w, rep = _est_w(e, fi), e.stopping_crit <= 10 * TOL
            else:
                r = _run("MultiTaskBCD", X, Y, dfd, pend, fi, st, use_acc=s == "MultiTaskBCD")
                w, rep = r["w"], r["reported"]
        elif kind == "grouplasso_celer":
            import celer
            X = gen.design(rng, n, p, rho=rho)
            y = gen.target(rng, X, "reg", offset=1.0)
            sizes = [3, 2, 4, 1]
            ptr, idx = gen.groups_contiguous(p, sizes)
            al = frac * max(np.linalg.norm((X.T @ (y - y.mean() * fi) / n)[idx[ptr[g]:ptr[g + 1]]]) for g in range(4))
            pend = {"kind": "WeightedGroupL2", "alpha": al, "weights": [1.0] * 4, "grp_ptr": ptr, "grp_indices": idx,
                    "positive": False}
            prob = dict(X=X, y=y, datafit=Q, penalty=pend, fit_intercept=fi)
            ref = celer.GroupLasso(groups=sizes, alpha=al, fit_intercept=fi, tol=1e-12, max_iter=500,
                                   max_epochs=100000).fit(X, y)
            wref = _est_w(ref, fi)
            if s == "GroupLasso" and st == "csc":
                # (GroupLasso takes no sparse input: the storage flag selects the third documented `groups` format
                #  instead -- lists of indices, on a column-permuted copy, so that they are interleaved and unordered)
                perm = rng.permutation(p)
                inv = np.argsort(perm)
                lists = []
                for g in range(4):
                    pos = [int(inv[j]) for j in idx[ptr[g]:ptr[g + 1]]]
                    lists.append([pos[i] for i in rng.permutation(len(pos))])
                e = skglm.GroupLasso(groups=lists, alpha=al, fit_intercept=fi, tol=TOL)
                with warnings.catch_warnings():
                    warnings.simplefilter("ignore")
                    e.fit(np.asfortranarray(X[:, perm]), y)
                w2 = _est_w(e, fi)
                w = w2.copy()
                w[:p] = w2[:p][inv]
                rep = e.stop_crit_ <= 10 * TOL
            elif s == "GroupLasso":
                e = skglm.GroupLasso(groups=sizes, alpha=al, fit_intercept=fi, tol=TOL)
                with warnings.catch_warnings():
                    warnings.simplefilter("ignore")
                    e.fit(X, y)
                w, rep = _est_w(e, fi), e.stop_crit_ <= 10 * TOL
            else:
                r = _run("GroupBCD", X, y, {"kind": "QuadraticGroup", "grp_ptr": ptr, "grp_indices": idx}, pend, fi, st,
                         ws_strategy="fixpoint" if s.endswith("fixpoint") else "subdiff")
                w, rep = r["w"], r["reported"]
        elif kind == "quantile_linprog":
            from scipy.optimize import linprog
            X = gen.design(rng, 30, 5, rho=rho)
            y = gen.target(rng, X, "reg")
            q = 0.3
            al = 0.05 * len(y)
            nn, pp = X.shape
            # min q 1'u + (1-q) 1'v + al 1'(a+b)  s.t. X(a-b) + u - v = y, all >= 0
            c = np.concatenate([al * np.ones(2 * pp), q * np.ones(nn), (1 - q) * np.ones(nn)])
            A = np.hstack([X, -X, np.eye(nn), -np.eye(nn)])
            lp = linprog(c, A_eq=A, b_eq=y, bounds=(0, None), method="highs")
            dfd, pend = {"kind": "Pinball", "quantile_level": q}, {"kind": "L1", "alpha": al, "positive": False}
            prob = dict(X=X, y=y, datafit=dfd, penalty=pend, fit_intercept=False)
            r = _run("PDCD_WS", X, y, dfd, pend, False, "dense", tol=1e-9, max_iter=2000, max_epochs=5000)
            ok = r["exc"] is None and r["crit"] <= 1e-8
            f.meta["exc"] = [r["exc"]]
            f.le("agree", (PB.objective(prob, r["w"]) - lp.fun) if ok else 0.0, 1e-5 * max(1.0, abs(lp.fun)), when=ok)
            f.le("agree", (lp.fun - PB.objective(prob, r["w"])) if ok else 0.0, 1e-5 * max(1.0, abs(lp.fun)), when=ok)
            return f.trace()
        elif kind == "sqrtlasso_fixedpoint":
            X = gen.design(rng, n, p, rho=rho)
            y = gen.target(rng, X, "reg", offset=0.0)
            amax = float(np.max(np.abs(X.T @ y)) / np.linalg.norm(y))
            al = max(frac, 0.1) * amax
            dfd, pend = {"kind": "SqrtQuadratic"}, {"kind": "L1", "alpha": al, "positive": False}
            prob = dict(X=X, y=y, datafit=dfd, penalty=pend, fit_intercept=False)
            # scaled-Lasso fixed point: sigma = ||y - Xw||, w = Lasso(alpha * sigma / n)
            sig = np.linalg.norm(y)
            wref = np.zeros(p)
            for _ in range(500):
                wref = sk.Lasso(alpha=al * sig / len(y), fit_intercept=False, tol=1e-15, max_iter=10 ** 6).fit(X, y).coef_
                ns = np.linalg.norm(y - X @ wref)
                if abs(ns - sig) < 1e-14 * max(1.0, sig):
                    break
                sig = ns
            if s == "SqrtLasso":
                from skglm.experimental.sqrt_lasso import SqrtLasso
                e = SqrtLasso(alpha=al, tol=1e-10)
                with warnings.catch_warnings():
                    warnings.simplefilter("ignore")
                    e.fit(X, y)
                w, rep = e.coef_.ravel(), True
            else:
                kw = dict(tol=1e-9, max_iter=2000, max_epochs=5000) if s == "PDCD_WS" else dict(tol=1e-10)
                r = _run(s, X, y, dfd, pend, False, "dense", **kw)
                w, rep = r["w"], r["exc"] is None and r["crit"] <= 1e-8
            tolobj = 1e-6
        f.meta["exc"] = [None]
        ok = bool(rep and w is not None)
        if ok:
            o, oref = PB.objective(prob, w), PB.objective(prob, wref)
            loose = 1e-5 if f.meta.get("ref_note") == "liblinear" else 1e-7
            # a converged run attains the reference optimum (it may be better than an imprecise reference)
            f.le("agree", o - oref, loose * max(1.0, abs(oref)))
            f.le("reference_not_beaten", oref - o, 1e-4 * max(1.0, abs(oref)))
            mu = SV.strong_convexity(prob, w)
            f.le("unique_same_w", float(np.max(np.abs(np.asarray(w) - np.asarray(wref)))),
                 (1e-3 if f.meta.get("ref_note") else 1e-5) * max(1.0, float(np.max(np.abs(wref)))),
                 when=mu is not None and mu > 1e-4 and abs(o - oref) <= loose * max(1.0, abs(oref)))
        else:
            f.le("agree", 0.0, 0.0, when=False)
    except BaseException as e:  # noqa: BLE001
        if isinstance(e, (KeyboardInterrupt, SystemExit)):
            raise
        f.meta["exc"] = [type(e).__name__, str(e)[:200]]
        f.flag("runs", False)
    return f.trace()


def _skglm_solve_reg(s, X, y, Q, pend, fi, st, al, l1r, positive):
    import skglm
    from scipy import sparse
    if s in ("Lasso", "ElasticNet"):
        e = skglm.Lasso(alpha=al, fit_intercept=fi, tol=TOL, positive=positive) if s == "Lasso" else \
            skglm.ElasticNet(alpha=al, l1_ratio=l1r, fit_intercept=fi, tol=TOL, positive=positive)
        with warnings.catch_warnings():
            warnings.simplefilter("ignore")
            e.fit(sparse.csc_matrix(X) if st == "csc" else X, y)
        return _est_w(e, fi), e.stop_crit_ <= 10 * TOL
    if s == "AndersonCD_fixpoint":
        r = _run("AndersonCD", X, y, Q, pend, fi, st, ws_strategy="fixpoint")
    elif s in ("GramCD_warm", "AndersonCD_warm", "FISTA_warm"):
        # the optimum does not depend on where a solver starts: a consistent, far, dense start
        rng = np.random.default_rng(17)
        w0 = rng.standard_normal(X.shape[1] + (1 if fi and s == "AndersonCD_warm" else 0))
        if positive:
            w0 = np.abs(w0)
        base_s = s.split("_")[0]
        fi_s = fi and base_s == "AndersonCD"
        Xw0 = X @ w0[:X.shape[1]] + (w0[-1] if fi_s else 0.0)
        kw = dict(max_iter=20000) if base_s == "GramCD" else (dict(max_iter=100000, tol=1e-9) if base_s == "FISTA" else {})
        r = _run(base_s, X, y, None if base_s == "GramCD" else Q, pend, fi_s, st, w_init=w0, Xw_init=Xw0, **kw)
        if base_s == "FISTA":
            r["reported"] = r["exc"] is None and r["crit"] < 1e-8
    elif s in ("GramCD", "GramCD_acc"):
        r = _run("GramCD", X, y, None, pend, False, st, use_acc=s == "GramCD_acc", greedy_cd=s == "GramCD", max_iter=20000)
    elif s == "FISTA":
        r = _run("FISTA", X, y, Q, pend, False, st, max_iter=100000, tol=1e-9)
        r["reported"] = r["exc"] is None and r["crit"] < 1e-8
    else:
        r = _run(s, X, y, Q, pend, fi, st)
    return r["w"], r["reported"]


FN = {"C02": "run_c02", "C14": "run_c14", "C15": "run_c15", "C16": "run_c16"}
MINE = {"C02": {"agree", "unique_same_w", "runs"}, "C14": {"agree", "runs", "converges"}, "C15": {"equivariant", "runs", "converges"},
        "C16": {"alpha_max_eq", "null", "nonnull", "null_unpenalised_optimal", "runs"}}
QUICK_N = {"C02": 70, "C14": 84, "C15": 90, "C16": 70}


def dispatch(fn, inst, seed, tid):
    return globals()[fn](inst, seed, tid)


def run(prop, tier, seed):
    ck = CK.Check(prop, tier, seed)
    ck.cov["rule"] = (
        "instance = (relation kind, solver, storage, fit_intercept) enumerated EXHAUSTIVELY by specs/api/Relations.tla "
        f"(Family = {prop}); both tiers execute every instance (thorough: with three draws of the numeric data). Both members of each pair "
        "are solved on the real code at tol 1e-10; a pair is compared when both runs REPORT convergence. Distinct = "
        "distinct instances; non-trivial = both members reported convergence and were compared.")
    ck.cov["trusted_base"] = ["harness/oracle objective (documented losses / penalties)", "reference implementations "
                              "(scikit-learn, celer 0.7.4, scipy linprog) for C02", "TLC 1.8"]
    ck.assumptions = ["tall well-conditioned problems (n=40, p=10) so that minimisers are unique where compared",
                      "objective agreement 1e-7 relative (1e-5 against liblinear / hinge references)"]
    try:
        r = tlc.run("Relations", cfg_text=f'SPECIFICATION Spec\nCONSTANT Family = "{prop}"\nCHECK_DEADLOCK FALSE\n',
                    timeout=600)
        insts = r["printed"]
        ck.add_tlc(dict(distinct=max(1, len(insts)), states=max(1, len(insts)), wall_s=r["wall_s"]),
                   name=f"Relations[Family={prop}] (exhaustive catalogue)", kind="scenario generator")
    except tlc.TLCError as e:
        ck.machinery(str(e)[:2000])
        return ck.finish()
    # both tiers run the WHOLE catalogue (it costs about a minute); the thorough tier instantiates it with three
    # independent draws of the numeric data
    seeds = [seed] if tier == "quick" else [seed, seed + 1, seed + 2]
    ck.cov["exhaustive"] = True
    jobs = [(FN[prop], it, sd, k * len(insts) + i + 1) for k, sd in enumerate(seeds) for i, it in enumerate(insts)]
    res, errs = pool.map_grouped("harness.checks.relations", "dispatch", jobs,
                                 key=lambda j: (j[1]["kind"], j[1].get("solver")), chunk=4)
    for it, msg, tb in errs:
        ck.machinery(f"driver failed on {it[1] if it else None}: {msg}\n{tb}")
    if errs:
        return ck.finish()
    try:
        v = rel.judge(res)
    except tlc.TLCError as e:
        ck.machinery(str(e)[:2000])
        return ck.finish()
    ck.add_verdicts(v)
    for t in res:
        names = {c for c, _ in v.bad(t["id"])}
        meta = t["meta"]
        compared = any(e["when"] and e["c"] in ("agree", "equivariant", "null", "nonnull") for e in t["events"])
        ck.count(json.dumps({k: meta[k] for k in meta if k not in ("exc", "ref_note", "reference_gap")}, sort_keys=True), compared)
        ck.cov["traces_validated_against_impl"] += 1
        for e in t["events"]:
            if e["when"]:
                ck.clause(e["c"], e["c"] not in names)
        for c in sorted(names & MINE[prop]):
            m2 = dict({k: meta[k] for k in meta if k not in ("exc",)}, clause=c,
                      exc_type=next((x[0] for x in (meta.get("exc") or []) if isinstance(x, (list, tuple)) and x), None)
                      if isinstance(meta.get("exc"), list) else None)
            ck.violation(c, m2, dict(kind="relation", replay_module="harness.checks.relations", property=prop, clause=c,
                                     inst={k: meta[k] for k in meta if k not in ("seed", "exc", "ref_note")},
                                     seed=meta["seed"]))
        if len(ck.cov["samples"]) < 6:
            ck.sample(dict(instance={k: meta[k] for k in meta if k not in ("exc",)}, exc=meta.get("exc"),
                           facts=[{k: (round(x, 12) if isinstance(x, float) else x) for k, x in e.items()}
                                  for e in t["events"][:4]], verdict=sorted(names)))
    return ck.finish()


def replay(rp):
    t = dispatch(FN[rp["property"]], rp["inst"], rp["seed"], 1)
    v = rel.judge([t])
    print("instance:", rp["inst"], "exc:", t["meta"].get("exc"))
    for e in t["events"]:
        print("  ", e)
    print("verdict:", v.bad(1))
    if any(c == rp["clause"] for c, _ in v.bad(1)):
        print(f"REPRODUCED clause={rp['clause']} property={rp['property']}")
        return 1
    print("not reproduced on the current tree")
    return 0
