"""C07 (prox = global minimiser) and C08 (optimality measure sound) -- registrations."""
import json

import numpy as np

from .. import check as CK
from .. import pool, rel, tlc
from . import penvec, penvec_dom

DOM_CLAUSES = {"C07": {"finite", "prox_min", "prox_kkt", "prox_feasible"}, "C08": {"dist_eq", "fixpoint_fn_eq", "fixpoint_fn_zero_iff", "value_eq"}}


def oracle_gate(ck, seed):
    """oracle == spec on the lattice: the float mirror must give what Penalty.tla derives."""
    from ..oracle import penalties as OP
    vecs = []
    rng = np.random.default_rng(seed)
    cfgs = penvec.configs()
    for (k, al, ga, lr, wt, pos) in cfgs:
        d = {"kind": k, "alpha": float(al), "gamma": float(ga), "l1_ratio": float(lr),
             "weights": [float(wt)], "positive": bool(pos)}
        P = OP.table(d, 0)
        base = dict(kind=k, al=penvec.q(al), ga=penvec.q(ga), lr=penvec.q(lr), wt=penvec.q(wt), pos=pos)
        for x in penvec.XS[::3]:
            for s in penvec.STEPS:
                if not penvec.well_posed(k, ga, s, wt):
                    continue
                us, _ = OP.tab_prox_set(P, float(x), float(s))
                vecs.append(dict(base, op="prox", x=penvec.q(x), s=penvec.q(s), out=penvec.snap(us[0])))
            g = penvec.GS[int(rng.integers(len(penvec.GS)))]
            vecs.append(dict(base, op="dist", w=penvec.q(x), g=penvec.q(g),
                             out=penvec.snap(OP.tab_dist(P, float(x), -float(g)))))
            vecs.append(dict(base, op="value", w=penvec.q(x), out=penvec.snap(OP.tab_value(P, float(x)))))
    for n, v in enumerate(vecs):
        v["id"] = n + 1
    verdict, st = penvec.judge(vecs)
    ck.add_tlc(st, name="oracle == Penalty.tla on the lattice (gate)", kind="oracle validation")
    nbad = sum(1 for v in vecs if verdict[v["id"]])
    ck.cov["binding"].append(dict(gate="oracle==spec", vectors=len(vecs), mismatches=nbad))
    if nbad:
        ex = next(v for v in vecs if verdict[v["id"]])
        ck.machinery(f"oracle != spec on {nbad} lattice vectors, e.g. {json.dumps(ex)} -> {verdict[ex['id']]}")


def run(prop, tier, seed):
    ck = CK.Check(prop, tier, seed)
    ck.cov["rule"] = (
        "vector = (penalty class, hyper-parameters incl. weights/positive, operation, lattice point). "
        "Piecewise-quadratic scalar penalties: exact rational lattice (x in Z/4, |x|<=3; steps {1/2,1}; "
        "alpha {1/2,1}; gamma {3,5/2,7/2}; weights {0,1,7/4}; l1_ratio {1,1/2,1/4}) judged exactly by TLC "
        "against the piece-table definition. Other penalties: dominance / KKT / agreement facts judged by "
        "TLC on ranks. Distinct = distinct vectors; non-trivial = the code returned a value (no exception).")
    ck.cov["trusted_base"] = [
        "piece tables of specs/math/Penalty.tla transcribed from the class docstrings",
        "harness/oracle/penalties.py for non-piecewise/block values (gated against the spec on the lattice)",
        "float -> small-rational snapping at 1e-10", "TLC 1.8"]
    ck.assumptions = ["inputs restricted to the stated lattices; step sizes inside each penalty's "
                      "well-posed range (s*w < gamma for MCP, s < gamma-1 for SCAD)"]
    try:
        oracle_gate(ck, seed)
        vecs, errs = penvec.collect(prop, tier, seed)
        for it, msg, tb in errs:
            ck.machinery(f"vector driver failed: {msg}\n{tb}")
        verdict, st = penvec.judge(vecs)
        ck.add_tlc(st, name="PenVec (exact lattice vectors)", kind="vector judge")
    except tlc.TLCError as e:
        ck.machinery(str(e)[:2000])
        return ck.finish()
    mine = penvec.CLAUSE_OF[prop]
    bycatch = {}
    for v in vecs:
        bad = set(verdict[v["id"]])
        sig = json.dumps({k: v[k] for k in v if k not in ("id", "out", "fp", "d0", "flag")},
                         sort_keys=True)
        ck.count(sig, v.get("out", {}).get("k", "fin") != "exc")
        ck.cov["traces_validated_against_impl"] += 1
        for c in mine:
            ck.clause(c, c not in bad)
        for c in bad - mine:
            bycatch[c] = bycatch.get(c, 0) + 1
        if "spec_law" in bad:
            ck.machinery(f"the definition itself violates the prox/subdifferential law at {sig}")
        for c in sorted(bad & mine):
            meta = dict(kind=v["kind"], positive=v["pos"], op=v["op"], clause=c,
                        weight=v["wt"], point={k: v[k] for k in ("x", "s", "w", "g") if k in v})
            ck.violation(c, meta, dict(kind="penalty_vector", replay_module="harness.checks.pen",
                                       property=prop, clause=c, vector=v))
        if len(ck.cov["samples"]) < 3:
            ck.sample(dict(vector=v, verdict=sorted(bad)))
    # ---------------- dominance / block facts
    jobs = penvec_dom.all_jobs()
    res, errs = pool.map_grouped("harness.checks.penvec_dom", "dispatch", jobs,
                                 key=lambda it: (it[0], json.dumps(it[1], sort_keys=True)))
    for it, msg, tb in errs:
        ck.machinery(f"dominance driver failed on {it}: {msg}\n{tb}")
    traces = [t for r in res for t in r]
    want_ops = {"C07": ("prox",), "C08": ("subdiff",)}[prop]
    traces = [t for t in traces if t["meta"]["op"].startswith(want_ops)]
    try:
        v = rel.judge(traces)
    except tlc.TLCError as e:
        ck.machinery(str(e)[:2000])
        return ck.finish()
    ck.add_verdicts(v)
    dm = DOM_CLAUSES[prop]
    for t in traces:
        bad = v.bad(t["id"])
        names = {c for c, _ in bad}
        meta = t["meta"]
        ck.count(json.dumps(meta, sort_keys=True, default=str), "exc" not in meta)
        ck.cov["traces_validated_against_impl"] += 1
        for c in dm:
            ck.clause(c, c not in names)
        for c in sorted(names & dm):
            m2 = dict(kind=meta["kind"], op=meta["op"], clause=c, exc=meta.get("exc"),
                      zero_input=bool(np.all(np.asarray(meta.get("x", meta.get("w", 1.0))) == 0)),
                      positive=meta.get("positive"))
            ck.violation(c, m2, dict(kind="penalty_fact", replay_module="harness.checks.pen",
                                     property=prop, clause=c, meta=meta))
        if len(ck.cov["samples"]) < 6:
            ck.sample(dict(facts=meta, n_facts=len(t["events"]), verdict=bad))
    ck.cov["by_catch_other_clauses"] = bycatch
    return ck.finish()


def replay(rp):
    """Re-evaluate one vector / fact on the current tree."""
    if rp["kind"] == "penalty_vector":
        v = rp["vector"]
        from fractions import Fraction as F
        fr = lambda q: F(q[0], q[1])  # noqa: E731
        cfg = (v["kind"], fr(v["al"]), fr(v["ga"]), fr(v["lr"]), fr(v["wt"]), v["pos"])
        ops = (v["op"],)
        out = penvec.vectors_for(v["kind"], [cfg], ops)
        keys = [k for k in ("x", "s", "w", "g") if k in v]
        mine = [o for o in out if all(o.get(k) == v.get(k) for k in keys)]
        for n, o in enumerate(mine):
            o["id"] = n + 1
        verdict, _ = penvec.judge(mine)
        print("vector:", json.dumps(mine[0] if mine else None))
        print("verdict:", verdict)
        if any(rp["clause"] in b for b in verdict.values()):
            print(f"REPRODUCED clause={rp['clause']} property={rp['property']}")
            return 1
        print("not reproduced on the current tree")
        return 0
    meta = rp["meta"]
    jobs = [j for j in penvec_dom.all_jobs()
            if j[1].get("kind") == meta["kind"]]
    traces = [t for j in jobs for t in penvec_dom.dispatch(*j)]
    same = [t for t in traces if json.dumps(t["meta"], sort_keys=True, default=str)
            == json.dumps(meta, sort_keys=True, default=str)]
    v = rel.judge(same)
    for t in same:
        print("facts:", t["meta"], "verdict:", v.bad(t["id"]))
        if any(c == rp["clause"] for c, _ in v.bad(t["id"])):
            print(f"REPRODUCED clause={rp['clause']} property={rp['property']}")
            return 1
    print("not reproduced on the current tree")
    return 0
