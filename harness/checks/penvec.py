"""C07 / C08 on scalar piecewise-quadratic penalties: exact lattice vectors judged by TLC against the
piece-table DEFINITION (specs/math/Penalty.tla via specs/trace/PenVec.tla).

C07 also covers the non-piecewise and block penalties by dominance certificates (penvec_dom.py).
"""
import itertools
import json
import math
import os
import tempfile
from fractions import Fraction as F

import numpy as np

from .. import check as CK
from .. import pool, tlc

XS = [F(k, 4) for k in range(-12, 13)]
GS = [F(k, 2) for k in range(-6, 7)]
STEPS = [F(1, 2), F(1)]
ALPHAS = [F(1, 2), F(1)]
WTS = [F(0), F(1), F(7, 4)]
OTHER_W = 3.25          # weight of the neighbouring feature (index 0): must never be used


def configs():
    """(kind, al, ga, lr, wt, pos) over the hyper-parameter lattice."""
    out = []
    for al in ALPHAS:
        for pos in (0, 1):
            out.append(("L1", al, F(3), F(1), F(1), pos))
            for wt in WTS:
                out.append(("WeightedL1", al, F(3), F(1), wt, pos))
            for lr in (F(1), F(1, 2), F(1, 4)):
                out.append(("L1_plus_L2", al, F(3), lr, F(1), pos))
            for ga in (F(3), F(5, 2)):
                out.append(("MCPenalty", al, ga, F(1), F(1), pos))
                for wt in WTS:
                    out.append(("WeightedMCPenalty", al, ga, F(1), wt, pos))
        for ga in (F(3), F(7, 2)):
            out.append(("SCAD", al, ga, F(1), F(1), 0))
        out.append(("IndicatorBox", al, F(3), F(1), F(1), 0))
    out.append(("PositiveConstraint", F(1), F(3), F(1), F(1), 0))
    return out


def q(fr):
    return [fr.numerator, fr.denominator]


def snap(x):
    x = float(x)
    if math.isnan(x):
        return {"k": "nan", "v": [0, 1]}
    if math.isinf(x):
        return {"k": "+inf" if x > 0 else "-inf", "v": [0, 1]}
    fr = F(x).limit_denominator(4096)
    if abs(float(fr) - x) <= 1e-10 * max(1.0, abs(x)) and abs(fr.numerator) < 200000:
        return {"k": "fin", "v": q(fr)}
    return {"k": "off", "v": [0, 1], "raw": x}


def well_posed(kind, ga, s, wt):
    if kind in ("MCPenalty", "WeightedMCPenalty"):
        return s * (wt if kind == "WeightedMCPenalty" else 1) < ga
    if kind == "SCAD":
        return s < ga - 1
    return True


def make(kind, al, ga, lr, wt, pos):
    """compiled skglm penalty and the feature index to use."""
    from .. import skl
    a, g, r, w = float(al), float(ga), float(lr), float(wt)
    if kind == "L1":
        d = {"kind": kind, "alpha": a, "positive": bool(pos)}
    elif kind == "WeightedL1":
        d = {"kind": kind, "alpha": a, "weights": [OTHER_W, w], "positive": bool(pos)}
    elif kind == "L1_plus_L2":
        d = {"kind": kind, "alpha": a, "l1_ratio": r, "positive": bool(pos)}
    elif kind == "MCPenalty":
        d = {"kind": kind, "alpha": a, "gamma": g, "positive": bool(pos)}
    elif kind == "WeightedMCPenalty":
        d = {"kind": kind, "alpha": a, "gamma": g, "weights": [OTHER_W, w], "positive": bool(pos)}
    elif kind == "SCAD":
        d = {"kind": kind, "alpha": a, "gamma": g}
    elif kind == "IndicatorBox":
        d = {"kind": kind, "alpha": a}
    else:
        d = {"kind": kind}
    j = 1 if "weights" in d else 0
    return skl.penalty(d), j, d


def vectors_for(kind, cfgs, ops):
    """Runs in a worker: evaluate the compiled penalty on the lattice."""
    out = []
    for (k, al, ga, lr, wt, pos) in cfgs:
        pen, j, d = make(k, al, ga, lr, wt, pos)
        base = dict(kind=k, al=q(al), ga=q(ga), lr=q(lr), wt=q(wt), pos=pos)
        nfeat = 2 if "weights" in d else 1

        def vec(u):
            v = np.zeros(nfeat)
            v[j] = float(u)
            return v
        ws = np.array([j])
        if "prox" in ops:
            for s in STEPS:
                if not well_posed(k, ga, s, wt):
                    continue
                for x in XS:
                    try:
                        r = pen.prox_1d(float(x), float(s), j)
                        o = snap(r)
                    except Exception as e:  # noqa: BLE001
                        o = {"k": "exc", "v": [0, 1], "raw": type(e).__name__}
                    out.append(dict(base, op="prox", x=q(x), s=q(s), out=o))
        if "dist" in ops and hasattr(pen, "subdiff_distance"):
            for w in XS:
                for g in GS:
                    try:
                        r = pen.subdiff_distance(vec(w), np.array([float(g)]), ws)[0]
                        o = snap(r)
                    except Exception as e:  # noqa: BLE001
                        o = {"k": "exc", "v": [0, 1], "raw": type(e).__name__}
                    out.append(dict(base, op="dist", w=q(w), g=q(g), out=o))
        if "value" in ops:
            for w in XS:
                try:
                    if nfeat == 2:
                        r = pen.value(vec(w)) - pen.value(np.zeros(2))
                    else:
                        r = pen.value(vec(w))
                    o = snap(r)
                except Exception as e:  # noqa: BLE001
                    o = {"k": "exc", "v": [0, 1], "raw": type(e).__name__}
                out.append(dict(base, op="value", w=q(w), out=o))
        if "law" in ops and hasattr(pen, "subdiff_distance"):
            for s in STEPS:
                if not well_posed(k, ga, s, wt):
                    continue
                for w in XS[::2]:
                    for g in GS:
                        try:
                            pr = pen.prox_1d(float(w) - float(s) * float(g), float(s), j)
                            fp = int(abs(pr - float(w)) <= 1e-12)
                            dd = pen.subdiff_distance(vec(w), np.array([float(g)]), ws)[0]
                            d0 = int(abs(dd) <= 1e-12)
                        except Exception:  # noqa: BLE001
                            fp, d0 = -1, -1
                        out.append(dict(base, op="law", w=q(w), g=q(g), s=q(s), fp=fp, d0=d0))
        if "gsupp" in ops and hasattr(pen, "generalized_support"):
            for w in XS:
                fl = int(bool(pen.generalized_support(vec(w))[j]))
                out.append(dict(base, op="gsupp", w=q(w), flag=fl))
        if "ispen" in ops:
            fl = int(bool(pen.is_penalized(nfeat)[j]))
            out.append(dict(base, op="ispen", flag=fl))
    return out


OPS = {"C07": ("prox",), "C08": ("dist", "value", "law", "gsupp", "ispen")}
CLAUSE_OF = {"C07": {"finite", "prox_min", "prox_feasible"},
             "C08": {"dist_eq", "value_eq", "code_law", "dist_zero", "unpen_zero_value"}}
BINDING = {"spec_law", "prox_fixed_point"}      # spec_law validates the definition itself


def judge(vectors, parallel=6, batch=1500):
    """-> {id: [clauses]}, tlc stats"""
    os.makedirs(tlc.WORK, exist_ok=True)
    jobs, files = [], []
    for b in range(0, len(vectors), batch):
        chunk = vectors[b:b + batch]
        fd, path = tempfile.mkstemp(prefix="vec_", suffix=".json", dir=tlc.WORK)
        enc = []
        for v in chunk:
            v2 = {k: x for k, x in v.items()}
            for k in ("x", "s", "w", "g"):
                v2.setdefault(k, [0, 1])
            v2.setdefault("fp", 0)
            v2.setdefault("d0", 0)
            v2.setdefault("flag", 0)
            o = dict(v2.get("out", {"k": "fin", "v": [0, 1]}))
            o.pop("raw", None)
            v2["out"] = o
            enc.append(v2)
        with os.fdopen(fd, "w") as f:
            json.dump({"vectors": enc}, f)
        files.append(path)
        jobs.append(dict(spec="PenVec", cfg_text="SPECIFICATION Spec\nCHECK_DEADLOCK FALSE\n",
                         env={"TRACE_FILE": path}, timeout=1800, tag="PenVec"))
    res = tlc.run_many(jobs, parallel=parallel)
    verdict = {}
    st = dict(distinct=0, states=0, wall_s=0.0)
    for r, path in zip(res, files):
        st["distinct"] += r["distinct"]
        st["states"] += r["states"]
        st["wall_s"] += r["wall_s"]
        for pr in r["printed"]:
            if isinstance(pr, dict) and pr.get("v") == 2:
                verdict[pr["id"]] = sorted(pr["bad"])
        os.unlink(path)
    for v in vectors:
        if v["id"] not in verdict:
            raise tlc.TLCError(f"no verdict for vector {v['id']}")
    return verdict, st


def collect(prop, tier, seed):
    cfgs = configs()
    by_kind = {}
    for c in cfgs:
        by_kind.setdefault(c[0], []).append(c)
    items = []
    for k, cs in by_kind.items():
        # split big classes to balance workers
        for i in range(0, len(cs), 6):
            items.append((k, cs[i:i + 6], OPS[prop]))
    res, errs = pool.map_grouped("harness.checks.penvec", "vectors_for", items,
                                 key=lambda it: (it[0], id(it[1])))
    vecs = [v for r in res for v in r]
    vecs.sort(key=lambda v: json.dumps(v, sort_keys=True))
    if tier == "quick":
        rng = np.random.default_rng(seed)
        keep = []
        # stratified: all prox vectors of a random 60% of configs; dist/law subsampled
        for v in vecs:
            if v["op"] in ("prox", "value", "gsupp", "ispen"):
                keep.append(v)
            elif rng.random() < 0.25:
                keep.append(v)
        vecs = keep
    for n, v in enumerate(vecs):
        v["id"] = n + 1
    return vecs, errs
