"""Exact replay (spec -> code): specs/solvers/MicroCD.tla computes, in exact integer arithmetic on a
dyadic lattice, the iterates of AndersonCD's coordinate descent on a catalogue of micro problems; the
real solver is run with max_epochs = k and must return EXACTLY those floats (clause kernel_eq).
A mismatch is drift of the design model (binding), reported in evidence, never a property violation.
The exact states are also judged for descent of the exact objective (python fractions -> RelTrace)."""
import json
from fractions import Fraction as F

import numpy as np

from .. import rel, tlc

S = 2 ** 20
MAX_EPOCHS = 6          # the 7th call of the accelerator is the first extrapolation

XA = [[1, 2, 0], [1, 0, 2], [1, -2, 0], [1, 0, 2]]      # n = 4 : Lnum = 4, 8, 8
XB = [[1, 1], [1, 0]]                                    # n = 2 : Lnum = 2, 1
XC = [[2, 0, 1], [0, 2, 1], [2, 0, -1], [0, 2, -1]]      # orthogonal-ish, Lnum = 8, 8, 4
XD = [[1, 0, 0], [1, 0, 2], [-1, 0, 0], [1, 0, -2]]      # a zero column
XE = [[1, 1, 1, 0], [1, -1, 0, 1], [1, 1, -1, 0], [1, -1, 0, -1]]   # equal column norms are needed for MCP: Lnum = 4, 4, 2, 2 ...
XF = [[1, 1], [1, -1]]                                   # n = 2, Lnum = 2, 2 : step 1, gamma = 2 keeps the lattice


def catalogue():
    out = []
    pid = 0

    def add(X, y, alpha_q, pen, fi, gamma=4, w8=None):
        nonlocal pid
        pid += 1
        p = len(X[0])
        out.append(dict(id=pid, n=len(X), p=p, X=X, y=y, alpha=int(F(alpha_q) * S), pen=pen, gamma=gamma,
                        w8=w8 or [8] * p, fi=fi, alpha_q=str(F(alpha_q))))
    for fi in (False, True):
        for y in ([3, 1, -2, 4], [0, 2, 2, -1], [4, 4, 4, 4]):
            add(XA, y, F(1, 4), "L1", fi)
        add(XA, [3, 1, -2, 4], F(1, 4), "WeightedL1", fi, w8=[0, 8, 14])
        add(XA, [3, 1, -2, 4], F(1, 4), "L1pos", fi)
        add(XC, [1, 3, -1, 2], F(1, 8), "L1", fi)
        add(XC, [1, 3, -1, 2], F(1, 4), "L1pos", fi)
        add(XD, [2, 1, -2, 3], F(1, 4), "L1", fi)
    for y in ([3, 1], [1, -2], [4, 4]):
        for fi in (False, True):
            add(XF, y, F(1, 4), "MCP", fi, gamma=2)
            add(XF, y, F(1, 2), "MCP", fi, gamma=2)
    for y in ([4, -1], [1, 2], [-3, 1], [2, 2]):
        add(XB, y, F(1, 16), "L1pos", False)
        add(XB, y, F(1, 8), "L1", False)
        add(XB, y, F(1, 8), "L1", True)
    # the same exact model binds GramCD (cyclic, no acceleration): it sweeps the features in their natural order
    # and keeps the gradient through the Gram matrix -- on the lattice both bookkeepings are exact
    for c in list(out):
        c["solver"] = "AndersonCD"
        if not c["fi"]:
            out.append(dict(c, id=c["id"] + 1000, solver="GramCD", order=list(range(1, c["p"] + 1))))
    return out


def _tla_seq(x):
    if isinstance(x, list):
        return "<<" + ", ".join(_tla_seq(v) for v in x) + ">>"
    if isinstance(x, bool):
        return "TRUE" if x else "FALSE"
    if isinstance(x, str):
        return '"' + x + '"'
    return str(x)


def wrapper_module(cat):
    recs = []
    for c in cat:
        recs.append("[id |-> %d, n |-> %d, p |-> %d, X |-> %s, y |-> %s, alpha |-> %d, pen |-> %s, gamma |-> %d, "
                    "w8 |-> %s, fi |-> %s, order |-> %s]" % (c["id"], c["n"], c["p"], _tla_seq(c["X"]), _tla_seq(c["y"]),
                                                            c["alpha"], _tla_seq(c["pen"]), c["gamma"], _tla_seq(c["w8"]),
                                                            _tla_seq(c["fi"]),
                                                            _tla_seq(c.get("order") or list(range(1, c["p"] + 1)))))
    return ("---- MODULE MicroCD_mc ----\nEXTENDS MicroCD\nMCProblems == <<\n  " + ",\n  ".join(recs)
            + "\n>>\n====\n")


CFG = """SPECIFICATION Spec
CONSTANTS
  Problems <- MCProblems
  S = %d
  MaxEpochs = %d
INVARIANT Consistent
INVARIANT FeasibleX
CHECK_DEADLOCK FALSE
""" % (S, MAX_EPOCHS)


def model_states(cat):
    """-> {(id, ep): (w ints, b int)}, tlc result"""
    r = tlc.run("MicroCD_mc", cfg_text=CFG, extra_files={"MicroCD_mc.tla": wrapper_module(cat)}, timeout=900)
    st = {}
    for pr in r["printed"]:
        if isinstance(pr, dict) and pr.get("v") == 4:
            st[(pr["id"], pr["ep"])] = (list(pr["w"]), pr["b"])
    return st, r


def pen_desc(c):
    a = float(F(c["alpha_q"]))
    if c["pen"] == "L1":
        return {"kind": "L1", "alpha": a, "positive": False}
    if c["pen"] == "L1pos":
        return {"kind": "L1", "alpha": a, "positive": True}
    if c["pen"] == "WeightedL1":
        return {"kind": "WeightedL1", "alpha": a, "weights": [v / 8 for v in c["w8"]], "positive": False}
    return {"kind": "MCPenalty", "alpha": a, "gamma": float(c["gamma"]), "positive": False}


def run_real(c, tid0):
    """worker: real AndersonCD for k = 1..MAX_EPOCHS epochs on problem c -> {ep: coefficients}"""
    from .. import solve as SV
    X = np.asfortranarray(np.array(c["X"], dtype=float))
    y = np.array(c["y"], dtype=float)
    out = {}
    from skglm import _verif
    orders = []

    def sink(kind, f):
        if kind == "ws":
            orders.append([int(v) + 1 for v in np.asarray(f["ws"]).ravel()])
    prev = _verif.set_sink(sink)
    for storage in ("ndarray_F", "csc"):
        for k in range(1, MAX_EPOCHS + 1):
            if c.get("solver") == "GramCD":
                r = SV.run_solver("GramCD", SV.as_rep(X, storage), y, None, pen_desc(c), tol=1e-300, max_iter=k,
                                  use_acc=False, greedy_cd=False)
            else:
                r = SV.run_solver("AndersonCD", SV.as_rep(X, storage), y, {"kind": "Quadratic"}, pen_desc(c),
                                  fit_intercept=c["fi"], tol=1e-300, max_iter=1, max_epochs=k, p0=c["p"])
            out[(storage, k)] = None if r["w"] is None else r["w"].tolist()
            if r["exc"]:
                out[(storage, k)] = ("exc",) + tuple(r["exc"])
    _verif.set_sink(prev)
    same = all(o == orders[0] for o in orders) if orders else False
    if c.get("solver") == "GramCD":
        orders = [c["order"]]
    return dict(id=c["id"], results={f"{s}|{k}": v for (s, k), v in out.items()},
                order=orders[0] if orders else None, order_stable=same)


def exact_objective(c, w, b):
    X = [[F(v) for v in row] for row in c["X"]]
    y = [F(v) for v in c["y"]]
    n = c["n"]
    al = F(c["alpha_q"])
    r = [y[i] - sum(X[i][k] * w[k] for k in range(c["p"])) - b for i in range(n)]
    val = sum(v * v for v in r) / (2 * n)
    if c["pen"] in ("L1", "L1pos"):
        if c["pen"] == "L1pos" and any(v < 0 for v in w):
            return None
        val += al * sum(abs(v) for v in w)
    elif c["pen"] == "WeightedL1":
        val += al * sum(F(c["w8"][k], 8) * abs(w[k]) for k in range(c["p"]))
    else:
        g = F(c["gamma"])
        for v in w:
            a = abs(v)
            val += (al * a - a * a / (2 * g)) if a < g * al else g * al * al / 2
    return val


def facts(cat, states, reals):
    """kernel_eq (exact equality of every coefficient) and descent_exact per problem"""
    traces = []
    by_id = {r["id"]: r["results"] for r in reals}
    for c in cat:
        f = rel.Facts(c["id"], dict(problem=c["id"], solver=c.get("solver"), pen=c["pen"], fi=c["fi"], n=c["n"],
                                    p=c["p"]))
        prev = None
        for k in range(1, MAX_EPOCHS + 1):
            if (c["id"], k) not in states:
                f.flag("model_state_present", False)
                continue
            wi, bi = states[(c["id"], k)]
            ws = [F(v, S) for v in wi]
            bs = F(bi, S)
            for storage in ("ndarray_F", "csc"):
                got = by_id.get(c["id"], {}).get(f"{storage}|{k}")
                if got is None or (isinstance(got, (list, tuple)) and got and got[0] == "exc"):
                    f.flag("kernel_runs", False)
                    continue
                exp = [float(v) for v in ws] + ([float(bs)] if c["fi"] else [])
                same_len = len(got) == len(exp)
                f.flag("kernel_shape", same_len)
                if same_len:
                    for a, e in zip(got, exp):
                        f.eq("kernel_eq", a, e)
            o = exact_objective(c, ws, bs)
            if o is not None and prev is not None:
                f.le("descent_exact", float(o), float(prev) + 0.0)
                if o > prev:       # exact comparison decides; the float fact above is what TLC sees
                    f.flag("descent_exact", False)
            prev = o if o is not None else prev
        traces.append(f.trace())
    return traces


def run_binding(ck, parallel_pool):
    """Adds the exact-replay binding to a check's evidence. Returns number of drifting problems."""
    cat = catalogue()
    res, errs = parallel_pool.map_grouped("harness.checks.micro", "run_real", [(c, 0) for c in cat],
                                          key=lambda it: (it[0].get("solver"), it[0]["pen"]), chunk=6)
    if errs:
        ck.cov["binding"].append(dict(check="MicroCD exact replay", error=errs[0][1]))
        return -1
    by = {r_["id"]: r_ for r_ in res}
    for c in cat:
        o = by[c["id"]].get("order")
        if o and sorted(o) == list(range(1, c["p"] + 1)):
            c["order"] = o
    try:
        states, r = model_states(cat)
    except tlc.TLCError as e:
        ck.cov["binding"].append(dict(check="MicroCD exact replay", error=str(e)[:400]))
        return -1
    ck.add_tlc(r, name="MicroCD (exact dyadic CD, invariants Consistent, FeasibleX)", kind="design")
    if r["violated"]:
        ck.cov["notes"].append(f"MicroCD invariant violated: {r['violated']}")
    tr = facts(cat, states, res)
    v = rel.judge(tr)
    ck.add_verdicts(v)
    drift = []
    n_eq = 0
    for t in tr:
        names = {c for c, _ in v.bad(t["id"])}
        n_eq += sum(1 for e in t["events"] if e["c"] == "kernel_eq")
        if names:
            drift.append(dict(problem=t["meta"], clauses=sorted(names)))
    ck.cov["binding"].append(dict(check="MicroCD exact replay: real AndersonCD and cyclic GramCD (dense and CSC) return "
                                        "exactly the model's iterates for 1..6 epochs", problems=len(cat),
                                  coefficient_equalities=n_eq, model_states=len(states), drift=drift[:5],
                                  n_drift=len(drift)))
    return len(drift)
