"""C12: classifier outputs are consistent with the fitted linear model(s).
Scenarios from specs/api/Classifier.tla; facts judged by the RelTrace monitor."""
import json
import warnings

import numpy as np

from .. import check as CK
from .. import gen, pool, rel, tlc

N, P = 60, 6


def labels_for(alphabet, k, rng):
    if alphabet == "strings":
        return ["kiwi", "apple", "zebra", "mango"][:k]
    if alphabet == "ints_arbitrary":
        return [7, -3, 100, 42][:k]
    if alphabet == "pm1":
        return [-1, 1]
    if alphabet == "zero_one":
        return [0, 1]
    return [False, True]


def rename_map(names, kind, rng):
    srt = sorted(names)
    if kind == "none":
        return {a: a for a in names}
    new = [f"c{i:02d}" for i in range(len(srt))] if isinstance(srt[0], str) else [1000 + 10 * i for i in range(len(srt))]
    if kind == "order_preserving":
        return {a: new[i] for i, a in enumerate(srt)}
    if kind == "order_reversing":
        return {a: new[len(srt) - 1 - i] for i, a in enumerate(srt)}
    perm = list(rng.permutation(len(srt)))
    return {a: new[perm[i]] for i, a in enumerate(srt)}


def make(est, fi, tol=1e-9, warm=False, alpha=0.01):
    import skglm
    from skglm.datafits import Logistic, QuadraticSVC
    from skglm.penalties import L1, IndicatorBox
    from skglm.solvers import ProxNewton, AndersonCD
    if est == "SparseLogisticRegression":
        return skglm.SparseLogisticRegression(alpha=alpha, fit_intercept=fi, tol=tol, warm_start=warm)
    if est == "LinearSVC":
        return skglm.LinearSVC(C=0.5, tol=tol, warm_start=warm)
    if est == "GLE_Logistic":
        return skglm.GeneralizedLinearEstimator(Logistic(), L1(alpha), ProxNewton(fit_intercept=fi, tol=tol,
                                                                                 warm_start=warm))
    return skglm.GeneralizedLinearEstimator(QuadraticSVC(), IndicatorBox(0.5),
                                            AndersonCD(fit_intercept=False, tol=tol, warm_start=warm))


def run_one(item, seed, tid):
    from scipy import sparse
    sc, effect = item["sc"], item["effect"]
    rng = gen.rng_for(seed, "classif", json.dumps(sc, sort_keys=True))
    k = sc["k"]
    X = gen.design(rng, N, P, rho=0.2)
    centers = rng.standard_normal((k, P)) * 1.5
    lab_idx = rng.integers(0, k, N)
    null_reg = sc.get("regime") == "null_imbalanced"
    if null_reg:
        lab_idx = (rng.random(N) < 0.2).astype(int)
        lab_idx[:2] = [0, 1]
    X = np.asfortranarray(X + centers[lab_idx] + (0.7 if sc["fit_intercept"] else 0.0))
    names = labels_for(sc["alphabet"], k, rng)
    y = np.array([names[i] for i in lab_idx])
    Xs = sparse.csc_matrix(X) if sc["storage"] == "csc" else X
    f = rel.Facts(tid, dict(sc=sc, effect=effect, seed=seed))
    fi = bool(sc["fit_intercept"])

    warm = sc.get("refit") == "same_object_warm"
    alpha_fit = 0.01
    if null_reg:
        yb = np.where(lab_idx == 1, 1.0, -1.0)
        alpha_fit = 1.5 * float(np.max(np.abs(X.T @ (yb - yb.mean())))) / (2 * N)      # above the critical strength

    def fit(yy):
        est = make(sc["est"], fi, warm=warm, alpha=alpha_fit)
        with warnings.catch_warnings():
            warnings.simplefilter("ignore")
            est.fit(Xs, yy)
        return est
    try:
        est = fit(y)
    except BaseException as e:  # noqa: BLE001
        if isinstance(e, (KeyboardInterrupt, SystemExit)):
            raise
        f.meta["exc"] = (type(e).__name__, str(e)[:300])
        # a class poisoned by an earlier copy in this process is a state leak between fits: C18's business
        f.flag("fits", False, when="__slotnames__" not in str(e))
        return f.trace()
    f.flag("fits", True)
    f.meta["exc"] = None
    classes = list(est.classes_)
    f.flag("classes_sorted", classes == sorted(set(y.tolist())))
    coef = np.atleast_2d(np.array(est.coef_, dtype=float, copy=True))
    icpt = np.ravel(np.array(est.intercept_, dtype=float, copy=True))
    if icpt.size == 1 and coef.shape[0] > 1:
        icpt = np.repeat(icpt, coef.shape[0])
    dec_lin = X @ coef.T + icpt                       # (N, rows)
    try:
        with warnings.catch_warnings():
            warnings.simplefilter("ignore")
            dec = np.asarray(est.decision_function(Xs) if hasattr(est, "decision_function")
                             else est._decision_function(Xs), dtype=float)
        d2 = dec.reshape(N, -1)
        ok_shape = d2.shape == dec_lin.shape
        f.flag("decision_shape", ok_shape)
        if ok_shape:
            f.le("decision_is_linear", float(np.max(np.abs(d2 - dec_lin))), 1e-9 * max(1.0, float(np.abs(dec_lin).max())))
        with warnings.catch_warnings():
            warnings.simplefilter("ignore")
            pred = np.asarray(est.predict(Xs))
        f.flag("predict_shape", pred.shape == (N,))
        if pred.shape == (N,):
            if len(classes) == 2:
                exp = np.array([classes[int(v > 0)] for v in dec_lin[:, 0]])
            else:
                exp = np.array([classes[int(i)] for i in dec_lin.argmax(axis=1)])
            safe = (np.abs(dec_lin[:, 0]) > 1e-9) if len(classes) == 2 else np.ones(N, bool)
            f.flag("predict_is_argmax", bool(np.all(pred[safe] == exp[safe])))
        if hasattr(est, "predict_proba") and len(classes) > 2:
            # far from the training data (all one-vs-rest scores strongly negative / positive): still probabilities
            cmean = coef.mean(axis=0)
            far = np.vstack([-t * cmean / max(1e-12, float(cmean @ cmean)) for t in (10.0, 25.0, 40.0)]
                            + [X[i] * 8.0 for i in range(5)])
            dfar = far @ coef.T + icpt
            pfar = np.asarray(est.predict_proba(sparse.csc_matrix(far) if sc["storage"] == "csc" else far), dtype=float)
            ok = pfar.shape == (len(far), len(classes)) and bool(np.all(np.isfinite(pfar)))
            f.flag("proba_far_shape", ok)
            if ok and float(np.max(np.abs(dfar))) < 300:
                f.le("proba_sum", float(np.max(np.abs(pfar.sum(axis=1) - 1.0))), 1e-9)
        if hasattr(est, "predict_proba"):
            pr = np.asarray(est.predict_proba(Xs), dtype=float)
            f.flag("proba_shape", pr.shape == (N, len(classes)))
            if pr.shape == (N, len(classes)):
                f.le("proba_sum", float(np.max(np.abs(pr.sum(axis=1) - 1.0))), 1e-9)
                f.flag("proba_range", bool(np.all(pr >= 0) and np.all(pr <= 1)))
                if len(classes) > 2:
                    # one-vs-rest: within a sample the probabilities are an increasing function of the decision values
                    srt = np.argsort(dec_lin, axis=1)
                    dsrt = np.take_along_axis(dec_lin, srt, axis=1)
                    psrt = np.take_along_axis(pr, srt, axis=1)
                    strict = np.diff(dsrt, axis=1) > 1e-9
                    f.flag("proba_monotone", bool(np.all(np.diff(psrt, axis=1)[strict] > -1e-12)))
                    top_gap = (dsrt[:, -1] - dsrt[:, -2]) > 1e-9
                    f.flag("proba_argmax_is_prediction",
                           bool(np.all(pr.argmax(axis=1)[top_gap] == dec_lin.argmax(axis=1)[top_gap])))
                if len(classes) == 2:
                    o = np.argsort(dec_lin[:, 0])
                    f.flag("proba_monotone", bool(np.all(np.diff(pr[o, 1]) >= -1e-12)))
                    f.flag("proba_half_at_zero", bool(np.all((pr[:, 1] > 0.5) == (dec_lin[:, 0] > 0))))
    except BaseException as e:  # noqa: BLE001
        if isinstance(e, (KeyboardInterrupt, SystemExit)):
            raise
        f.meta["predict_exc"] = (type(e).__name__, str(e)[:200])
        f.flag("predict_runs", False)
    # ---- one-vs-rest rows are the binary models (intercept included)
    if len(classes) > 2:
        ok_rows = coef.shape[0] == len(classes)
        f.flag("ovr_rows", ok_rows)
        if ok_rows:
            worst = 0.0
            for r, c in enumerate(classes):
                yb = np.where(y == c, 1, -1)
                try:
                    eb = fit(yb)
                    db = X @ np.atleast_2d(eb.coef_)[0] + float(np.ravel(eb.intercept_)[0])
                    worst = max(worst, float(np.max(np.abs(db - dec_lin[:, r]))))
                except BaseException as e:  # noqa: BLE001
                    worst = float("inf")
            f.le("ovr_row_equals_binary_fit", worst, 1e-5 * max(1.0, float(np.abs(dec_lin).max())))
    # ---- renaming the labels
    if sc["rename"] != "none":
        mp = rename_map(names, sc["rename"], rng)
        y2 = np.array([mp[a] for a in y.tolist()])
        try:
            with warnings.catch_warnings():
                warnings.simplefilter("ignore")
                p1_before = np.asarray(est.predict(Xs))
            if warm:
                with warnings.catch_warnings():
                    warnings.simplefilter("ignore")
                    e2 = est.fit(Xs, y2)               # the same object, warm-started from the previous model
            else:
                e2 = fit(y2)
            c2 = np.atleast_2d(np.asarray(e2.coef_, dtype=float))
            i2 = np.ravel(np.asarray(e2.intercept_, dtype=float))
            if i2.size == 1 and c2.shape[0] > 1:
                i2 = np.repeat(i2, c2.shape[0])
            cl2 = list(e2.classes_)
            # decision of class (new name) must equal decision of the class it renames
            inv = {v: kname for kname, v in mp.items()}
            d_new = X @ c2.T + i2
            if len(classes) == 2:
                # decision > 0 <=> classes[1]
                pos_old, pos_new = classes[1], inv[cl2[1]]
                sign = 1.0 if pos_old == pos_new else -1.0
                err = float(np.max(np.abs(sign * d_new[:, 0] - dec_lin[:, 0])))
            else:
                err = 0.0
                for r2, cn in enumerate(cl2):
                    r1 = classes.index(inv[cn])
                    err = max(err, float(np.max(np.abs(d_new[:, r2] - dec_lin[:, r1]))))
            f.le("rename", err, 1e-5 * max(1.0, float(np.abs(dec_lin).max())))
            with warnings.catch_warnings():
                warnings.simplefilter("ignore")
                p1 = p1_before
                p2 = e2.predict(Xs)
            if np.shape(p1) == (N,) and np.shape(p2) == (N,):
                margin = np.abs(dec_lin[:, 0]) > 1e-6 if len(classes) == 2 else \
                    (np.sort(dec_lin, axis=1)[:, -1] - np.sort(dec_lin, axis=1)[:, -2]) > 1e-6
                f.flag("rename_predictions", bool(np.all(np.array([mp[a] for a in np.asarray(p1).tolist()])[margin]
                                                          == np.asarray(p2)[margin])))
        except BaseException as e:  # noqa: BLE001
            if isinstance(e, (KeyboardInterrupt, SystemExit)):
                raise
            f.meta["rename_exc"] = (type(e).__name__, str(e)[:200])
            f.flag("rename", False)
    return f.trace()


def run(prop, tier, seed):
    ck = CK.Check(prop, tier, seed)
    ck.cov["rule"] = (
        "scenario = (classifier, label alphabet: strings / arbitrary ints / {-1,1} / {0,1} / floats, 2-4 classes, "
        "intercept, renaming: order preserving / reversing / shuffle, storage) enumerated EXHAUSTIVELY by "
        "specs/api/Classifier.tla (quick: seeded sample of it); one fit per scenario plus the per-class binary fits "
        "and the fit on renamed labels. Non-trivial = the classifier fitted.")
    ck.cov["trusted_base"] = ["numpy for X coef^T + intercept", "binary fits of the same estimator as the reference for OvR rows",
                              "TLC 1.8"]
    ck.assumptions = ["n > p, separated clusters, tol 1e-9 (unique minimisers)"]
    try:
        r = tlc.run("Classifier", cfg_text="SPECIFICATION Spec\nINVARIANT WellFormed\nCHECK_DEADLOCK FALSE\n", timeout=600)
        items = r["printed"]
        ck.add_tlc(r, name="Classifier (exhaustive scenario enumeration)", kind="scenario generator")
    except tlc.TLCError as e:
        ck.machinery(str(e)[:2000])
        return ck.finish()
    if tier == "quick":
        rng = np.random.default_rng(seed)
        idx = rng.permutation(len(items))
        keep, seen = [], set()
        for i in idx:
            s = items[i]["sc"]
            k1 = (s["est"], s["k"] > 2, s["rename"], s.get("refit"), s["alphabet"] if s.get("refit") != "fresh" else "",
                  s.get("regime"), s["alphabet"] if s.get("regime") != "regular" else "")
            if k1 not in seen:
                seen.add(k1)
                keep.append(items[i])
        for i in idx:
            if len(keep) >= 140:
                break
            if items[i] not in keep:
                keep.append(items[i])
        items = keep
    jobs = [(it, seed, i + 1) for i, it in enumerate(items)]
    res, errs = pool.map_grouped("harness.checks.classif", "run_one", jobs, key=lambda j: j[0]["sc"]["est"], chunk=6)
    for it, msg, tb in errs:
        ck.machinery(f"driver failed on {it[0] if it else None}: {msg}\n{tb}")
    if errs:
        return ck.finish()
    try:
        v = rel.judge(res)
    except tlc.TLCError as e:
        ck.machinery(str(e)[:2000])
        return ck.finish()
    ck.add_verdicts(v)
    for t in res:
        names = {c for c, _ in v.bad(t["id"])}
        meta = t["meta"]
        s = meta["sc"]
        ck.count(json.dumps(s, sort_keys=True), meta.get("exc") is None)
        ck.cov["traces_validated_against_impl"] += 1
        for e in t["events"]:
            if e["when"]:
                ck.clause(e["c"], e["c"] not in names)
        for c in sorted(names):
            m2 = dict(s, clause=c, multiclass=s["k"] > 2, exc_type=(meta.get("exc") or meta.get("predict_exc") or
                                                                    meta.get("rename_exc") or [None])[0])
            ck.violation(c, m2, dict(kind="classifier", replay_module="harness.checks.classif", property=prop,
                                     clause=c, item=dict(sc=s, effect=meta["effect"]), seed=meta["seed"]))
        if len(ck.cov["samples"]) < 6:
            ck.sample(dict(scenario=s, exc=meta.get("exc"), verdict=sorted(names)))
    return ck.finish()


def replay(rp):
    t = run_one(rp["item"], rp["seed"], 1)
    v = rel.judge([t])
    print("scenario:", rp["item"]["sc"], "exc:", t["meta"].get("exc"), "verdict:", v.bad(1))
    if any(c == rp["clause"] for c, _ in v.bad(1)):
        print(f"REPRODUCED clause={rp['clause']} property={rp['property']}")
        return 1
    print("not reproduced on the current tree")
    return 0
