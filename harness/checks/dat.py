"""C06 (datafits faithful) and C09 (step-size constants are curvature bounds) -- registrations."""
import json

from .. import check as CK
from .. import pool, rel, tlc
from . import datavec

VEC_CLAUSES = {"C06": {"grad_eq", "value_eq", "intercept_step", "intercept_sign"},
               "C09": {"hess_eq", "lipschitz_bound", "lipschitz_exact"}}
VEC_OPS = {"C06": {"raw_grad", "value", "icpt"}, "C09": {"raw_hess", "lips"}}
FACT_CLAUSES = {"C06": {"value_eq", "grad_eq", "sparse_eq"},
                "C09": {"hess_eq", "hess_dominates", "block_exact", "block_shape", "global_exact",
                        "global_bound", "sparse_not_above", "sparse_accuracy", "sparse_eq", "coord_exact"}}


def run(prop, tier, seed):
    ck = CK.Check(prop, tier, seed)
    nper = 40 if tier == "quick" else 400
    nrep = 40 if tier == "quick" else 300
    ck.cov["rule"] = (
        "exact vectors: (datafit, accessor, lattice point) with n=3 samples, integer/half-integer data, "
        "sample weights in {0..3}, Huber residuals inside/on/beyond delta, exponential losses at z = k ln 2 "
        "(|k|<=3) -- judged exactly by TLC against specs/math/Datafit.tla. Facts: every accessor of every "
        "datafit (dense and CSC, zero / duplicated / rescaled columns, ties and censoring for Cox) against the "
        "oracle mirror, judged by TLC on ranks. Distinct = distinct (datafit, accessor, point); non-trivial = "
        "the accessor returned (no exception).")
    ck.cov["trusted_base"] = ["documented loss formulas transcribed in specs/math/Datafit.tla and harness/oracle/datafits.py",
                              "numpy.linalg.eigvalsh for reference spectral norms", "float -> rational snapping at 1e-10",
                              "central differences of the oracle gradient for the Cox Hessian (1e-6 step)"]
    ck.assumptions = ["off-lattice accuracy of exponential losses is covered only through the oracle mirror"]
    try:
        items = [(k, seed, nper) for k in datavec.KINDS]
        res, errs = pool.map_grouped("harness.checks.datavec", "vectors_for", items, key=lambda it: it[0])
        for it, msg, tb in errs:
            ck.machinery(f"vector driver failed on {it}: {msg}\n{tb}")
        vecs = [v for r in res for v in r if v["op"] in VEC_OPS[prop]]
        vecs.sort(key=lambda v: json.dumps(v, sort_keys=True))
        for n, v in enumerate(vecs):
            v["id"] = n + 1
        verdict, st = datavec.judge(vecs)
        ck.add_tlc(st, name="DataVec (exact lattice vectors)", kind="vector judge")
    except tlc.TLCError as e:
        ck.machinery(str(e)[:2000])
        return ck.finish()
    mine = VEC_CLAUSES[prop]
    for v in vecs:
        bad = set(verdict[v["id"]])
        ck.count(json.dumps({k: v[k] for k in v if k not in ("id", "out")}, sort_keys=True),
                 v["out"]["k"] != "exc")
        ck.cov["traces_validated_against_impl"] += 1
        for c in mine:
            ck.clause(c, c not in bad)
        for c in sorted(bad & mine):
            meta = dict(datafit=v["kind"], op=v["op"], via=v.get("via"), clause=c,
                        out_kind=v["out"]["k"])
            if c == "intercept_step" and v["out"]["k"] == "fin":
                meta["ratio_to_documented"] = _icpt_ratio(v)
            ck.violation(c, meta, dict(kind="datafit_vector", replay_module="harness.checks.dat",
                                       property=prop, clause=c, vector=v))
        if len(ck.cov["samples"]) < 3:
            ck.sample(dict(vector=v, verdict=sorted(bad)))
    # ---- facts
    fn = "accessor_facts" if prop == "C06" else "lipschitz_facts"
    kinds = datavec.FACT_KINDS if prop == "C06" else datavec.LIP_KINDS
    items = [(k, seed, 100000 * (i + 1), nrep) for i, k in enumerate(kinds)]
    if prop == "C09":
        items += [(k, seed, 100000 * (i + 50), nrep) for i, k in enumerate(datavec.FACT_KINDS)]
    res, errs = pool.map_grouped("harness.checks.dat", "_dispatch",
                                 [(fn if it[2] < 5000000 else "accessor_facts",) + it for it in items],
                                 key=lambda it: (it[0], it[1]))
    for it, msg, tb in errs:
        ck.machinery(f"fact driver failed on {it}: {msg}\n{tb}")
    traces = [t for r in res for t in r]
    try:
        v = rel.judge(traces)
    except tlc.TLCError as e:
        ck.machinery(str(e)[:2000])
        return ck.finish()
    ck.add_verdicts(v)
    fm = FACT_CLAUSES[prop]
    for t in traces:
        names = {c for c, _ in v.bad(t["id"])}
        meta = t["meta"]
        present = {e["c"] for e in t["events"]}
        ck.count(json.dumps(meta, sort_keys=True), bool(present & fm))
        ck.cov["traces_validated_against_impl"] += 1
        for c in fm & present:
            ck.clause(c, c not in names)
        for c in sorted(names & fm):
            ck.violation(c, dict(meta, clause=c), dict(kind="datafit_fact", replay_module="harness.checks.dat",
                                                       property=prop, clause=c, meta=meta, fn=fn))
        if len(ck.cov["samples"]) < 6:
            ck.sample(dict(facts=meta, n_facts=len(t["events"]), verdict=sorted(names)))
    return ck.finish()


def _icpt_ratio(v):
    """code's intercept step divided by the documented one (grad_b / L0), at this lattice point."""
    import math
    import numpy as np
    from ..oracle import datafits as OD
    fr = lambda q: q[0] / q[1]  # noqa: E731
    kind = v["kind"]
    y = np.array([fr(a) for a in v["y"]])
    z = np.array([fr(a) for a in v["z"]]) * (math.log(2.0) if kind in datavec.EXPK else 1.0)
    dd = datavec.desc_of(kind, [fr(a) for a in v["sw"]], fr(v["delta"]))
    gb = float(OD.raw_grad(dd, y, z).sum())
    L0 = 0.25 if kind == "Logistic" else 1.0
    doc = gb / L0
    out = fr(v["out"]["v"])
    return None if doc == 0 else round(out / doc, 6)


def _dispatch(fn, kind, seed, tid0, nrep):
    return getattr(datavec, fn)(kind, seed, tid0, nrep)


def replay(rp):
    import os
    seed = int(os.environ.get("VERIF_SEED", "1"))
    if rp["kind"] == "datafit_vector":
        v = rp["vector"]
        out = [o for o in datavec.vectors_for(v["kind"], seed, 40)
               if all(o.get(k) == v.get(k) for k in ("op", "y", "z", "sw", "delta", "i", "col", "via"))]
        for n, o in enumerate(out):
            o["id"] = n + 1
        verdict, _ = datavec.judge(out) if out else ({}, None)
        print("vectors:", len(out), "verdict:", verdict)
        if any(rp["clause"] in b for b in verdict.values()):
            print(f"REPRODUCED clause={rp['clause']} property={rp['property']}")
            return 1
        print("not reproduced on the current tree (vectors are regenerated from VERIF_SEED)")
        return 0
    meta = rp["meta"]
    fn = rp.get("fn", "accessor_facts")
    traces = getattr(datavec, fn)(meta["datafit"], seed, 0, 80)
    same = [t for t in traces if t["meta"].get("rep") == meta.get("rep")]
    v = rel.judge(same)
    for t in same:
        print("facts:", t["meta"], "verdict:", v.bad(t["id"]))
        if any(c == rp["clause"] for c, _ in v.bad(t["id"])):
            print(f"REPRODUCED clause={rp['clause']} property={rp['property']}")
            return 1
    print("not reproduced on the current tree")
    return 0
