"""C05: warm starts, paths and warm_start refits solve the problem they are asked.

Histories come from specs/api/Path.tla (TLC -simulate); each history is executed on the real entry
point under the AutoTracer (one trace per BaseSolver.solve call, the problem being read from the live
objects at that moment); the SolverTrace monitor judges every step (cert for the step's own problem,
buffer consistency of the caller's arrays)."""
import json
import warnings

import numpy as np

from .. import check as CK
from .. import gen, monitor, pool, rel, tlc
from . import solverprops

FRACS = [1.3, 0.5, 0.2, 0.08, 0.03]          # index 0: above the critical strength (null model)
N_HIST = {"quick": 70, "thorough": 1500}


def _shape(rng, kind, p, fi, T=None, p0=2):
    shp = (p + fi,) if T is None else (p + fi, T)
    w = np.zeros(shp)
    if kind in ("random", "bigsupp"):
        k = 3 if kind == "random" else min(p, 2 * p0 + 5)
        idx = rng.choice(p, k, replace=False)
        w[idx] = rng.standard_normal((k,) + shp[1:]) * 0.5
        if fi:
            w[-1] = 0.3
    elif kind == "intercept_only":
        w[-1] = 1.5
    elif kind == "task_sparse":
        # a legitimate user start whose rows are not jointly sparse: zero for the first task, non-zero for the others
        idx = rng.choice(p, 4, replace=False)
        w[idx] = rng.standard_normal((4,) + shp[1:]) * 0.8
        if T is not None:
            w[idx[:3], 0] = 0.0
    return w


def run_history(h, seed, hid):
    """worker: execute one history; returns list of trace dicts."""
    from .. import skl
    from .. import tracer as TR
    import scipy.sparse as sp
    rng = gen.rng_for(seed, "hist", json.dumps(h, sort_keys=True))
    entry, fi = h["entry"], bool(h["fit_intercept"])
    n, p = 30, 20
    X = gen.design(rng, n, p, rho=0.7)
    sparse_x = bool(rng.integers(2)) and entry not in ("SqrtLasso.path", "GroupLasso.refit")
    clf = entry.startswith(("SparseLogistic", "ProxNewton", "LinearSVC"))
    if entry.startswith(("MultiTaskBCD", "MultiTaskLasso")):
        y = gen.target(rng, X, "reg", n_tasks=2, offset=1.0 if fi else 0.0)
        amax = float(np.max(np.linalg.norm(X.T @ (y - y.mean(0) * fi), axis=1))) / n
    elif clf:
        y = gen.target(rng, X, "clf", offset=0.4 if fi else 0.0)
        amax = float(np.max(np.abs(X.T @ y))) / (2 * n)
    else:
        y = gen.target(rng, X, "reg", offset=2.0 if fi else 0.0)
        amax = float(np.max(np.abs(X.T @ (y - y.mean() * fi)))) / n
    if entry == "SqrtLasso.path":
        amax = float(np.max(np.abs(X.T @ y)) / np.linalg.norm(y))
    grid = [f * amax for f in FRACS]
    Xs = sp.csc_matrix(X) if sparse_x else X
    meta = dict(entry=entry, fit_intercept=fi, hist=h["hist"], storage="csc" if sparse_x else "dense",
                hid=hid, seed=seed)
    auto = TR.AutoTracer(meta=meta).install()
    tol = 1e-6
    exc = None
    ret = None
    try:
        with warnings.catch_warnings():
            warnings.simplefilter("ignore")
            ret = _execute(h, entry, fi, X, Xs, y, grid, rng, tol, skl, n, p)
    except Exception as e:  # noqa: BLE001
        exc = type(e).__name__ + ": " + str(e)[:200]
        import traceback
        last = traceback.extract_tb(e.__traceback__)[-1]
        if "/harness/" in last.filename:          # raised by the driver itself, not by the library: a harness bug
            exc = "HARNESS-BUG " + exc + f" at {last.filename}:{last.lineno}"
    finally:
        auto.remove()
    out = []
    if exc is None and entry.endswith(".path") and ret is not None:
        out.append(_path_facts(ret, auto, entry, fi, hid, meta, tol))
    for k, t in enumerate(auto.traces):
        t["id"] = hid * 100 + k + 1
        t["meta"]["driver_exc"] = exc
        t["meta"]["path_steps"] = len(auto.path_steps)
        out.append(t)
    if not out:
        out.append(dict(id=hid * 100, meta=dict(meta, driver_exc=exc, empty=True), tol=tol, scale=1.0,
                        dropped=0, events=[dict(e="raise", exc="NoSolve", expl=0, msg=str(exc))],
                        descent=0, cert=0, critval=0, haswouter=0))
    return out



def _path_facts(ret, auto, entry, fi, hid, meta, tol):
    """What path() RETURNS: the grid it was given, and for every grid point the coefficients and the stopping value of
    the solve made for that point (C05 observes `path() return (alphas, coefs, stop_crits)`); each returned column is
    also judged directly against the problem of its alpha by the oracle."""
    from ..oracle import problem as PB
    (res, g) = ret
    f = rel.Facts(hid * 100 + 99, dict(meta, kind="path_return"))
    alphas, coefs = np.asarray(res[0], dtype=float), np.asarray(res[1], dtype=float)
    crits = np.asarray(res[2], dtype=float) if len(res) > 2 else None
    if entry == "SqrtLasso.path":
        # documented: the grid is sorted in decreasing order and coefs has shape (n_alphas, n_features)
        g = np.sort(np.asarray(g, dtype=float))[::-1]
        coefs = coefs.T
    f.flag("path_alphas", alphas.shape == np.shape(g) and bool(np.all(alphas == np.asarray(g, dtype=float))))
    f.flag("path_len", coefs.shape[-1] == len(g) == len(auto.solves))
    if coefs.shape[-1] == len(auto.solves):
        for t, sv in enumerate(auto.solves):
            col = coefs[..., t]
            w = sv["w"]
            if w is not None and np.ndim(w) == 2 and np.shape(w) != col.shape and np.shape(w) == col.T.shape:
                col = col.T                    # multitask paths return (n_tasks, n_features, n_alphas)
            if w is not None and np.shape(w) == col.shape:
                f.le("path_coefs_are_the_step_solutions", float(np.max(np.abs(col - np.asarray(w)))) if col.size else 0.0,
                     0.0)
            else:
                f.flag("path_coefs_are_the_step_solutions", False, when=w is not None)
            if crits is not None and t < len(crits):
                stopped = crits[t] <= sv["tol"]
                try:
                    v = PB.violation(sv["prob"], col, sv["strategy"], sv["family"])[0]
                    sc = PB.null_scale(sv["prob"])
                    f.le("path_cert", v, PB.vbound(sv["tol"], sc), when=bool(stopped))
                except Exception as e:  # noqa: BLE001
                    f.meta["oracle_exc"] = type(e).__name__ + str(e)[:80]
    return dict(_facts=f.trace())


def _execute(h, entry, fi, X, Xs, y, grid, rng, tol, skl, n, p):
    import skglm
    from skglm.utils.data import grp_converter
    hist = h["hist"]
    clf = entry.startswith(("SparseLogistic", "ProxNewton", "LinearSVC"))
    if entry in ("AndersonCD.solve", "ProxNewton.solve", "GroupBCD.solve"):
        if entry == "AndersonCD.solve":
            wts = np.ones(p)
            wts[rng.choice(p, 4, replace=False)] = 0.0
            pen = skl.penalty({"kind": "WeightedL1", "alpha": grid[0], "weights": wts.tolist(),
                               "positive": False})
            df = skl.datafit({"kind": "Quadratic"})
            slv = skl.solver("AndersonCD", fit_intercept=fi, tol=tol * max(1.0, abs(grid[0]) * 10), p0=2)
        elif entry == "ProxNewton.solve":
            pen = skl.penalty({"kind": "L1", "alpha": grid[0], "positive": False})
            df = skl.datafit({"kind": "Logistic"})
            slv = skl.solver("ProxNewton", fit_intercept=fi, tol=tol, p0=2)
        else:
            ptr, idx = gen.groups_random(rng, p, 3, permuted=True)
            pen = skl.penalty({"kind": "WeightedGroupL2", "alpha": grid[0],
                               "weights": np.ones(len(ptr) - 1).tolist(), "grp_ptr": ptr,
                               "grp_indices": idx, "positive": False})
            df = skl.datafit({"kind": "QuadraticGroup", "grp_ptr": ptr, "grp_indices": idx})
            slv = skl.solver("GroupBCD", fit_intercept=fi, tol=tol, p0=2)
        w = Xw = None
        for op in hist:
            pen.alpha = grid[op["a"] - 1]
            if op["warm"] == "none":
                w = Xw = None
                res = slv.solve(Xs, y, df, pen)
                w = res[0]
                Xw = X @ w[:p] + (w[-1] if fi else 0.0)
            elif op["warm"] == "reuse" and w is not None:
                slv.solve(Xs, y, df, pen, w, Xw)
            else:
                w = _shape(rng, op["warm"], p, fi)
                Xw = X @ w[:p] + (w[-1] if fi else 0.0)
                slv.solve(Xs, y, df, pen, w, Xw)
        return
    if entry.endswith(".path"):
        op = hist[0]
        g = grid[:op["n"]]
        if op["order"] == "inc":
            g = g[::-1]
        elif op["order"] == "shuffled":
            g = list(rng.permutation(g))
        g = np.array(g)
        T = 2 if entry in ("MultiTaskBCD.path", "MultiTaskLasso.path") else None
        init = None if op["init"] == "none" else _shape(rng, op["init"], p, fi, T)
        if entry == "AndersonCD.path":
            pen = skl.penalty({"kind": "L1", "alpha": g[0], "positive": False})
            df = skl.datafit({"kind": "Quadratic"})
            return skl.solver("AndersonCD", fit_intercept=fi, tol=tol, p0=2).path(Xs, y, df, pen, g, init), g
        elif entry == "MultiTaskBCD.path":
            pen = skl.penalty({"kind": "L2_1", "alpha": g[0]})
            df = skl.datafit({"kind": "QuadraticMultiTask"})
            Winit = None if init is None else np.ascontiguousarray(init.T)
            # (without extrapolation for the task-sparse start: an accepted extrapolation rebuilds XW from scratch and
            #  would hide a model fit that does not belong to W_init)
            return skl.solver("MultiTaskBCD", fit_intercept=fi, tol=tol, p0=2,
                              use_acc=op["init"] != "task_sparse").path(Xs, y, df, pen, g, Winit), g
        elif entry == "MultiTaskLasso.path":
            Winit = None if init is None else np.ascontiguousarray(init.T)
            return skglm.MultiTaskLasso(alpha=g[0], fit_intercept=fi, tol=tol, p0=2).path(Xs, y, g, coef_init=Winit), g
        elif entry == "SqrtLasso.path":
            from skglm.experimental.sqrt_lasso import SqrtLasso
            return SqrtLasso(alpha=g[0], tol=tol).path(X, y, alphas=g), g
        else:
            cls = entry.split(".")[0]
            kw = dict(alpha=g[0], fit_intercept=fi, tol=tol, p0=2)
            if cls == "WeightedLasso":
                wts = np.ones(p)
                wts[rng.choice(p, 4, replace=False)] = 0.0
                kw["weights"] = wts
            est = getattr(skglm, cls)(**kw)
            return est.path(Xs, y, g, coef_init=init), g
        return
    # warm_start refits
    cls = entry.split(".")[0]
    cur = 1
    kw = dict(alpha=grid[cur], fit_intercept=fi, tol=tol, warm_start=True)
    if cls == "GroupLasso":
        perm = rng.permutation(p)
        kw["groups"] = [list(map(int, perm[i:i + 4])) for i in range(0, p, 4)]
    if cls != "SparseLogisticRegression" and cls != "GroupLasso":
        kw["p0"] = 2
    if cls == "LinearSVC":
        kw = dict(C=[0.05, 0.2, 0.5, 1.0, 2.0][cur], tol=tol, warm_start=True)
    est = getattr(skglm, cls)(**kw)
    Xcur, ycur = Xs, y
    for op in hist:
        c = op["change"]
        if c == "new_labels":
            if clf or cls == "LinearSVC":
                ycur = -np.asarray(ycur) if int(rng.integers(2)) else np.where(rng.random(len(y)) < 0.3, -np.asarray(y), y)
            else:
                ycur = np.asarray(y) * -0.5 + rng.standard_normal(np.shape(y)) * 0.1
        if c == "new_rows" and cls == "LinearSVC":
            ycur = -np.asarray(ycur)          # the dual variables index samples: keep n, change the labels
        elif c == "new_rows":
            keep = np.sort(rng.choice(n, n - 5, replace=False))
            Xcur, ycur = Xs[keep], np.asarray(y)[keep]
        if c == "alpha_down":
            cur = min(cur + 1, 4)
        elif c == "alpha_up":
            cur = max(cur - 1, 0)
        elif c == "alpha_down_far":
            cur = 4
        elif c == "alpha_to_null":
            cur = 0
        elif c == "toggle_intercept":
            est.set_params(fit_intercept=not est.fit_intercept)
        if cls == "LinearSVC":
            est.set_params(C=[0.05, 0.2, 0.5, 1.0, 2.0][cur])
        else:
            est.set_params(alpha=grid[cur])
        est.fit(Xcur, ycur)


def _hh(entry, fi, *ops):
    return dict(entry=entry, fit_intercept=fi, hist=list(ops))


_fit = lambda c: dict(op="fit", change=c)                      # noqa: E731
# permanent directed histories (every one reproduced a defect or a seeded change once)
SENTINEL_HISTORIES = [
    _hh("LinearSVC.refit", False, _fit("same"), _fit("new_labels")),
    _hh("LinearSVC.refit", False, _fit("same"), _fit("new_rows"), _fit("alpha_down")),
    _hh("SparseLogisticRegression.refit", True, _fit("same"), _fit("new_labels"), _fit("toggle_intercept")),
    _hh("Lasso.refit", True, _fit("same"), _fit("toggle_intercept"), _fit("alpha_down")),
    _hh("Lasso.refit", True, _fit("same"), _fit("new_rows"), _fit("alpha_down_far")),
    _hh("ElasticNet.refit", False, _fit("same"), _fit("new_labels")),
    _hh("GroupLasso.refit", True, _fit("same"), _fit("alpha_down"), _fit("new_rows")),
    _hh("AndersonCD.path", True, dict(op="path", order="dec", init="intercept_only", n=3)),
    # refits from the null model (empty support, non-zero intercept) and back to it
    _hh("Lasso.refit", True, _fit("same"), _fit("alpha_to_null"), _fit("alpha_down")),
    _hh("Lasso.refit", True, _fit("same"), _fit("alpha_to_null"), _fit("same"), _fit("alpha_down_far")),
    _hh("ElasticNet.refit", True, _fit("same"), _fit("alpha_up"), _fit("alpha_up"), _fit("alpha_down")),
    _hh("SparseLogisticRegression.refit", True, _fit("same"), _fit("alpha_to_null"), _fit("alpha_down")),
    _hh("GroupLasso.refit", True, _fit("same"), _fit("alpha_to_null"), _fit("alpha_down")),
    _hh("Lasso.path", True, dict(op="path", order="dec", init="none", n=5)),
    _hh("ElasticNet.path", True, dict(op="path", order="shuffled", init="intercept_only", n=5)),
    _hh("AndersonCD.path", True, dict(op="path", order="inc", init="random", n=4)),
    _hh("Lasso.path", True, dict(op="path", order="shuffled", init="zero", n=4)),
    _hh("WeightedLasso.path", False, dict(op="path", order="dec", init="random", n=3)),
    _hh("MultiTaskBCD.path", True, dict(op="path", order="dec", init="none", n=3)),
    _hh("MultiTaskBCD.path", False, dict(op="path", order="dec", init="task_sparse", n=3)),
    _hh("MultiTaskBCD.path", False, dict(op="path", order="shuffled", init="task_sparse", n=4)),
    _hh("MultiTaskLasso.path", False, dict(op="path", order="dec", init="task_sparse", n=3)),
    _hh("MultiTaskLasso.path", True, dict(op="path", order="dec", init="none", n=5)),
    _hh("MultiTaskLasso.path", False, dict(op="path", order="shuffled", init="random", n=4)),
    _hh("MultiTaskLasso.refit", True, _fit("same"), _fit("alpha_to_null"), _fit("alpha_down")),
    _hh("MultiTaskLasso.refit", True, _fit("same"), _fit("new_labels"), _fit("toggle_intercept")),
    _hh("AndersonCD.solve", False, dict(op="solve", a=2, warm="bigsupp"), dict(op="solve", a=3, warm="reuse"),
        dict(op="solve", a=1, warm="reuse")),
    _hh("AndersonCD.solve", True, dict(op="solve", a=1, warm="intercept_only"), dict(op="solve", a=4, warm="reuse")),
]


def run(prop, tier, seed):
    ck = CK.Check(prop, tier, seed)
    ck.cov["rule"] = (
        "history = one behaviour of specs/api/Path.tla: entry point (direct solve loops reusing buffers, "
        "AndersonCD.path / MultiTaskBCD.path / estimator path() / SqrtLasso.path over grids in decreasing, "
        "increasing, shuffled order from every coef_init shape, warm_start refits after hyper-parameter "
        "changes incl. toggling fit_intercept) x operations (<= 4), drawn by tlc -simulate; plus the solver "
        "scenarios with a warm start and the sentinels. Each BaseSolver.solve inside a history is one trace. "
        "Distinct = distinct (history, step); non-trivial = the step returned with stop_crit <= tol (cert "
        "evaluated) or with the caller's buffer returned in place (buffer evaluated).")
    ck.cov["trusted_base"] = ["harness/oracle", "rank encoding", "TLC 1.8"]
    ck.assumptions = ["every supplied Xw_init is consistent with w_init (the property's premise)",
                      "tolerances of DESIGN 5.2"]
    try:
        cfg = "SPECIFICATION Spec\nCONSTANT MaxLen = 4\nINVARIANT WarmSound\nCHECK_DEADLOCK FALSE\n"
        # design model of the buffers of a path (specs/solvers/PathCore.tla): holds for the code's constants, refuted
        # for the two variants it must exclude (a view instead of a copy; the intercept dropped from the warm fit)
        rd = tlc.run("PathCore", "PathCore_design.cfg", timeout=300)
        ck.add_tlc(rd, name="PathCore design (INVARIANTS StoredStable, FitConsistent)", kind="design")
        if rd["violated"]:
            ck.machinery(f"PathCore design constants violate {rd['violated']}")
        for neg, inv in (("PathCore_neg_view.cfg", "StoredStable"), ("PathCore_neg_intercept.cfg", "FitConsistent")):
            rn = tlc.run("PathCore", neg, timeout=300)
            ck.cov["design_models"].append(dict(name=f"PathCore {neg}", violated=rn["violated"], expected_to_violate=True))
            if inv not in rn["violated"]:
                ck.cov["notes"].append(f"{neg} no longer violates {inv}: the negative model lost its teeth")
        r = tlc.run("Path", cfg_text=cfg, simulate=f"num={N_HIST[tier]}", depth=8, seed=seed, timeout=600)
        hists = r["printed"]
        ck.add_tlc(dict(distinct=len(hists), states=len(hists), wall_s=r["wall_s"]),
                   name="Path -simulate (history generator, invariant WarmSound)", kind="scenario generator")
        # warm-started solver scenarios from the common scenario space
        scs, r2 = solverprops.gen_scenarios("ALL", 100 if tier == "quick" else 1500, seed + 7, density=3)
        scs = [s for s in scs if s["warm"] not in ("none", "infeasible")
               and s["solver"] not in ("FISTA", "LBFGS", "PDCD_WS")]
        ck.add_tlc(dict(distinct=len(scs), states=len(scs), wall_s=r2["wall_s"]),
                   name="SolverScenario -simulate (warm-started solves)", kind="scenario generator")
    except tlc.TLCError as e:
        ck.machinery(str(e)[:2000])
        return ck.finish()
    # de-duplicate histories
    seen, uniq = set(), []
    for h in SENTINEL_HISTORIES + hists:
        k = json.dumps(h, sort_keys=True)
        if k not in seen:
            seen.add(k)
            uniq.append(h)
    items = [(h, seed, i + 1) for i, h in enumerate(uniq)]
    res, errs = pool.map_grouped("harness.checks.warm", "run_history", items,
                                 key=lambda it: it[0]["entry"], chunk=6)
    for it, msg, tb in errs:
        ck.machinery(f"history driver failed on {it[0] if it else None}: {msg}\n{tb}")
    pfacts = [t["_facts"] for r_ in res for t in r_ if "_facts" in t]
    traces = [t for r_ in res for t in r_ if "_facts" not in t]
    sitems = []
    tid = 10 ** 7
    for sc in scs:
        tid += 1
        sitems.append((sc, seed, tid))
    for s in solverprops.sentinels(prop):
        for k in range(s.get("seeds", 20)):
            tid += 1
            sitems.append((dict(s["scenario"], sentinel=s["name"]), seed * 1000 + k, tid))
    res2, errs2 = pool.map_grouped("harness.scen", "run", sitems,
                                   key=lambda it: (it[0]["solver"], it[0]["datafit"], it[0]["penalty"]))
    for it, msg, tb in errs2:
        ck.machinery(f"scenario driver failed on {it[0] if it else None}: {msg}\n{tb}")
    traces += res2
    if errs or errs2:
        return ck.finish()
    try:
        v = monitor.validate(traces, coverage=True)
    except tlc.TLCError as e:
        ck.machinery(str(e)[:2000])
        return ck.finish()
    ck.add_verdicts(v)
    mine = {"cert", "buffer"}
    nexc = 0
    for tr in traces:
        bad = v.bad(tr["id"])
        names = {c for c, _ in bad}
        meta = tr["meta"]
        last = tr["events"][-1]
        raised = last["e"] == "raise"
        if meta.get("driver_exc"):
            nexc += 1
            if str(meta["driver_exc"]).startswith("HARNESS-BUG"):
                ck.machinery(f"history driver bug on {meta.get('entry')} {meta.get('hist')}: {meta['driver_exc']}")
        stopped = (not raised) and last["crit"] <= tr["tol"]
        inplace = (not raised) and last.get("same_buf") == 1
        sig = json.dumps({k: meta.get(k) for k in ("entry", "hist", "fit_intercept", "storage", "step",
                                                   "solver", "datafit", "penalty", "warm", "p0", "max_iter",
                                                   "max_epochs", "strategy", "data")}, sort_keys=True, default=str)
        ck.count(sig, stopped or inplace)
        if not raised:
            ck.cov["traces_validated_against_impl"] += 1
        for c in mine:
            ck.clause(c, c not in names)
        for c in sorted(names & mine):
            pos = {cc: p for cc, p in bad}[c]
            m2 = dict({k: meta.get(k) for k in meta if k not in ("hist",)}, clause=c)
            m2.update(solverprops._explain(tr, pos, c))
            ck.violation(c, m2, dict(kind="warm_history" if "entry" in meta else "solver_scenario",
                                     replay_module="harness.checks.warm", property=prop, clause=c,
                                     history=dict(entry=meta.get("entry"), fit_intercept=meta.get("fit_intercept"),
                                                  hist=meta.get("hist")) if "entry" in meta else None,
                                     scenario={k: meta[k] for k in meta if k not in ("seed", "exc")} if "entry" not in meta else None,
                                     seed=meta.get("seed", seed), hid=meta.get("hid"), step=meta.get("step"),
                                     event=solverprops._ev(tr, pos)))
        if len(ck.cov["samples"]) < 5 and (stopped or inplace):
            ck.sample(dict(meta={k: meta[k] for k in meta if k != "exc"}, n_events=len(tr["events"]),
                           verdict=bad, last_event=solverprops._short(last)))
    if pfacts:
        try:
            vp = rel.judge(pfacts)
        except tlc.TLCError as e:
            ck.machinery(str(e)[:2000])
            return ck.finish()
        ck.add_verdicts(vp)
        for t in pfacts:
            names = {c for c, _ in vp.bad(t["id"])}
            meta = t["meta"]
            ck.cov["traces_validated_against_impl"] += 1
            for e in t["events"]:
                if e["when"]:
                    ck.clause(e["c"], e["c"] not in names)
            for c in sorted(names):
                ck.violation(c, dict({k: meta.get(k) for k in ("entry", "fit_intercept", "storage", "hid", "seed")},
                                     clause=c, hist=meta.get("hist")),
                             dict(kind="warm_history", replay_module="harness.checks.warm", property=prop, clause=c,
                                  history=dict(entry=meta.get("entry"), fit_intercept=meta.get("fit_intercept"),
                                               hist=meta.get("hist")), scenario=None, seed=meta.get("seed", seed),
                                  hid=meta.get("hid"), step=None, event=None))
    ck.cov["notes"].append(f"{nexc} traces belong to histories whose driver raised (API refusals are C13's business)")
    return ck.finish()


def replay(rp):
    if rp.get("history"):
        allout = run_history(rp["history"], rp["seed"], rp["hid"] or 1)
        traces = [t for t in allout if "_facts" not in t]
        v = monitor.validate(traces)
        hit = False
        for t in allout:
            if "_facts" in t:
                vp = rel.judge([t["_facts"]])
                b = vp.bad(t["_facts"]["id"])
                print("path return verdict", b)
                hit = hit or any(c == rp["clause"] for c, _ in b)
        for t in traces:
            b = v.bad(t["id"])
            print("step", t["meta"].get("step"), "alpha", t["meta"].get("alpha"), "verdict", b)
            hit = hit or any(c == rp["clause"] for c, _ in b)
        if hit:
            print(f"REPRODUCED clause={rp['clause']} property={rp['property']}")
            return 1
        print("not reproduced on the current tree")
        return 0
    from .. import scen
    tr = scen.run(dict(rp["scenario"]), rp["seed"], 1)
    v = monitor.validate([tr])
    print("verdict:", v.bad(1))
    if any(c == rp["clause"] for c, _ in v.bad(1)):
        print(f"REPRODUCED clause={rp['clause']} property={rp['property']}")
        return 1
    print("not reproduced on the current tree")
    return 0
