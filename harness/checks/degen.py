"""C19: degenerate data is handled. Placements from specs/api/Degenerate.tla, real runs in isolated
workers (a hang or a dead worker is an observation), verdict by the SolverTrace monitor (clauses
finite, cert, zero_col_zero, explained_error, terminates, alive)."""
import json

from .. import check as CK
from .. import monitor, pool, tlc
from . import solverprops

CONVEX_AT_ZERO = {"L1", "WeightedL1", "L1_plus_L2", "L1pos", "WeightedGroupL2", "L2_1"}    # = Degenerate!ConvexAtZero
MINE = {"finite", "cert", "cert_outer", "zero_col_zero", "explained_error", "terminates", "alive"}
N = {"quick": 200, "thorough": 4000}
DEFAULTS = dict(p0="2", max_iter=50, max_epochs=200, tol="1e-5", warm="none", weights="unit", data="tall",
                alpha="0.1", use_acc=True)


def _s(solver, datafit, penalty, storage, cols, target="regular", shape="tall", fi=False, strategy="subdiff",
       greedy=False, warm="none"):
    return dict(solver=solver, datafit=datafit, penalty=penalty, storage=storage, fit_intercept=fi,
                greedy=greedy, strategy=strategy, cols=cols, target=target, shape=shape, warm=warm)


# permanent directed placements (each one reproduced a defect of the pinned tree once; DESIGN section 11)
SENTINELS = [
    _s("FISTA", "Quadratic", "L1", "dense", ["zero"] * 4, shape="single_feature"),
    _s("FISTA", "Quadratic", "L1", "csc", ["zero"] * 4, shape="single_feature"),
    _s("GramCD", "None", "L1", "dense", ["zero", "regular", "regular", "regular"]),
    _s("GramCD", "None", "L1", "csc", ["regular", "zero", "dup", "regular"], shape="wide"),
    _s("GroupBCD", "QuadraticGroup", "WeightedGroupL2", "dense", ["zero", "zero", "regular", "regular"]),
    _s("GroupBCD", "QuadraticGroup", "WeightedGroupL2", "csc", ["zero", "zero", "zero", "regular"], fi=True),
    _s("GroupProxNewton", "LogisticGroup", "WeightedGroupL2", "dense", ["zero", "zero", "regular", "dup"],
       shape="wide"),
    _s("GroupProxNewton", "LogisticGroup", "WeightedGroupL2", "dense", ["zero", "zero", "zero", "regular"], fi=True),
    _s("MultiTaskBCD", "QuadraticMultiTask", "L2_1", "csc", ["zero", "dup", "constant", "tiny"], fi=True),
    _s("AndersonCD", "Quadratic", "L1", "csc", ["zero", "big", "tiny", "dup"], fi=True),
    _s("AndersonCD", "Quadratic", "L1", "dense", ["regular", "zero", "regular", "zero"], fi=True, warm="on_degenerate"),
    _s("AndersonCD", "Quadratic", "WeightedL1", "csc", ["zero", "regular", "dup", "regular"], warm="on_degenerate"),
    _s("AndersonCD", "Logistic", "L1", "csc", ["regular", "regular", "zero", "tiny"], fi=True, warm="on_degenerate",
       strategy="fixpoint"),
    _s("ProxNewton", "Logistic", "L1", "csc", ["zero", "regular", "regular", "regular"], warm="on_degenerate",
       strategy="fixpoint"),
    _s("GroupBCD", "QuadraticGroup", "WeightedGroupL2", "dense", ["zero", "zero", "regular", "regular"],
       warm="on_degenerate"),
    _s("MultiTaskBCD", "QuadraticMultiTask", "L2_1", "dense", ["zero", "regular", "zero", "regular"], warm="on_degenerate"),
    _s("GramCD", "None", "L1", "dense", ["regular", "zero", "regular", "regular"], warm="on_degenerate"),
    _s("MultiTaskBCD", "QuadraticMultiTask", "L2_1", "csc_explicit", ["zero", "regular", "zero", "regular"]),
    _s("MultiTaskBCD", "QuadraticMultiTask", "L2_1", "csc_explicit", ["regular", "zero", "regular", "regular"], fi=True,
       warm="on_degenerate"),
    _s("AndersonCD", "Quadratic", "L1", "csc_explicit", ["zero", "regular", "dup", "zero"], fi=True),
    _s("ProxNewton", "Logistic", "L1", "csc_explicit", ["regular", "zero", "regular", "regular"], warm="on_degenerate"),
    _s("GroupBCD", "QuadraticGroup", "WeightedGroupL2", "csc_explicit", ["zero", "zero", "regular", "regular"]),
    _s("GramCD", "None", "L1", "csc_explicit", ["regular", "zero", "regular", "zero"]),
    _s("FISTA", "Quadratic", "L1", "csc_explicit", ["zero", "regular", "regular", "regular"]),
    _s("PDCD_WS", "Pinball", "L1", "dense", ["zero", "regular", "regular", "regular"]),
    _s("PDCD_WS", "SqrtQuadratic", "L1", "dense", ["regular", "zero", "regular", "zero"]),
    _s("PDCD_WS", "Pinball", "L1", "dense", ["regular", "regular", "zero", "regular"], warm="on_degenerate"),
    _s("AndersonCD", "Quadratic", "L1", "dense", ["zero", "regular", "regular", "regular"], strategy="fixpoint"),
    _s("AndersonCD", "Quadratic", "L1", "csc", ["regular", "zero", "regular", "regular"], strategy="fixpoint", fi=True),
]


def to_scenario(d):
    sc = dict(DEFAULTS)
    sc.update({k: d[k] for k in ("solver", "datafit", "penalty", "storage", "fit_intercept", "greedy",
                                 "strategy")})
    if sc["storage"] == "csc_explicit":
        sc["storage"] = "csc"
        sc["explicit_zeros"] = True
    if sc["penalty"] == "WeightedL1":
        sc["weights"] = "zeros"
    sc["degen"] = dict(cols=list(d["cols"]), target=d["target"], shape=d["shape"])
    # only where zero is the unique minimiser of the penalty on a null column: for the non-convex penalties a
    # coefficient in the flat region is a stationary point, and keeping it is legitimate
    if d.get("warm") == "on_degenerate" and d["solver"] not in ("LBFGS",) and d["penalty"] in CONVEX_AT_ZERO:
        sc["warm"] = "on_degenerate"
    return sc


def run(prop, tier, seed):
    ck = CK.Check(prop, tier, seed)
    ck.cov["rule"] = (
        "placement = one behaviour of specs/api/Degenerate.tla: composition x storage x intercept x strategy x "
        "kind of each of the first four columns (regular, all-zero, duplicate, constant, x1e6, x1e-6) x target "
        "(regular, zero, constant) x shape (tall, n<p, single feature, single group; groups aligned so that "
        "all-zero groups occur), drawn by tlc -simulate. Distinct = distinct placements; non-trivial = at "
        "least one column or the target is degenerate and the run finished (returned or raised).")
    ck.cov["trusted_base"] = ["harness/oracle", "rank encoding", "TLC 1.8", "watchdog timeout 150 s per run"]
    ck.assumptions = ["tolerance 1e-5*scale, default budgets (max_iter 50, max_epochs 200)"]
    try:
        cfg = "SPECIFICATION Spec\nINVARIANT WellFormed\nCHECK_DEADLOCK FALSE\n"
        r = tlc.run("Degenerate", cfg_text=cfg, simulate=f"num={N[tier]}", depth=12, seed=seed, timeout=600)
        placements = r["printed"]
        ck.add_tlc(dict(distinct=len(placements), states=len(placements), wall_s=r["wall_s"]),
                   name="Degenerate -simulate (placement generator)", kind="scenario generator")
        solverprops.design_stage(ck, "C04", "quick") if False else None
    except tlc.TLCError as e:
        ck.machinery(str(e)[:2000])
        return ck.finish()
    placements = SENTINELS + placements
    items = [(to_scenario(d), seed, i + 1) for i, d in enumerate(placements)]
    out = pool.map_isolated("harness.scen", "run", items,
                            key=lambda it: (it[0]["solver"], it[0]["datafit"], it[0]["penalty"]),
                            chunk=10, timeout=150)
    traces = []
    for idx, (sc, sd, tid) in enumerate(items):
        st, val = out.get(idx, ("died", None))
        if st == "ok":
            traces.append(val)
        elif st == "err":
            ck.machinery(f"driver failed on {sc}: {val}")
        else:
            traces.append(dict(id=tid, meta=dict(sc, seed=sd, exc=st), tol=1.0, scale=1.0, dropped=0,
                               events=[dict(e="hang" if st == "timeout" else "died")],
                               descent=0, cert=0, critval=0, haswouter=0))
    if ck.machinery_errors:
        return ck.finish()
    try:
        v = monitor.validate(traces, coverage=True)
    except tlc.TLCError as e:
        ck.machinery(str(e)[:2000])
        return ck.finish()
    ck.add_verdicts(v)
    for tr in traces:
        bad = v.bad(tr["id"])
        names = {c for c, _ in bad}
        meta = tr["meta"]
        dg = meta.get("degen", {})
        degenerate = any(k != "regular" for k in dg.get("cols", [])) or dg.get("target") != "regular"
        sig = json.dumps({k: meta[k] for k in sorted(meta) if k not in ("seed", "exc")}, sort_keys=True)
        ck.count(sig, degenerate and tr["events"][-1]["e"] in ("return", "raise"))
        ck.cov["traces_validated_against_impl"] += 1
        last = tr["events"][-1]
        for c in MINE:
            if c == "explained_error" and last["e"] != "raise":
                continue
            ck.clause(c, c not in names)
        for c in sorted(names & MINE):
            pos = {cc: p for cc, p in bad}[c]
            m2 = dict({k: meta[k] for k in meta if k != "degen"}, clause=c, cols=dg.get("cols"),
                      target=dg.get("target"), shape=dg.get("shape"),
                      exc_type=(last.get("exc") if last["e"] == "raise" else None))
            m2.update(solverprops._explain(tr, pos, c))
            ck.violation(c, m2, dict(kind="solver_scenario", property=prop, clause=c,
                                     scenario={k: meta[k] for k in meta if k not in ("seed", "exc")},
                                     seed=meta["seed"], position=pos, event=solverprops._ev(tr, pos)))
        if len(ck.cov["samples"]) < 5 and degenerate:
            ck.sample(dict(placement=dg, composition=[meta["solver"], meta["datafit"], meta["penalty"]],
                           storage=meta["storage"], verdict=bad, last_event=solverprops._short(last)))
    return ck.finish()
