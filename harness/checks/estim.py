"""C11: each ready-made estimator minimises exactly its documented objective.

Argument tuples and the DOCUMENTED objective descriptor come from specs/api/Estimator.tla; the driver
fits the real estimator, the oracle evaluates the first-order residual of the descriptor's objective
at (coef_, intercept_), the RelTrace monitor judges."""
import json
import warnings

import numpy as np

from .. import check as CK
from .. import gen, pool, rel, tlc
from ..oracle import problem as PB

N, P = 36, 10
SIZES = {"small": (36, 10, 0.4), "wide": (60, 80, 0.5)}      # wide: support of ~14 > p0, up to 26 zero weights
N_ARGS = {"quick": 420, "thorough": 3000}


def _groups(kind, rng):
    """the three documented `groups` formats and MY reading of them (partition as index lists)"""
    if kind == "int":
        return 2, [[0, 1], [2, 3], [4, 5], [6, 7], [8, 9]]
    if kind == "sizes":
        sizes = [3, 1, 4, 2]
        out, s = [], 0
        for k in sizes:
            out.append(list(range(s, s + k)))
            s += k
        return sizes, out
    perm = [int(v) for v in rng.permutation(P)]
    lists = [perm[0:3], perm[3:4], perm[4:8], perm[8:10]]
    return lists, lists


def run_one(item, seed, tid):
    import skglm
    from scipy import sparse
    args, doc = item["args"], item["doc"]
    est_name = args["est"]
    rng = gen.rng_for(seed, "estim", json.dumps(args, sort_keys=True))
    N, P, rho = SIZES[args.get("size", "small")]
    X = gen.design(rng, N, P, rho=rho)
    f = rel.Facts(tid, dict(args=args, doc=doc, seed=seed))
    loss = doc["loss"]
    fi_doc = bool(doc["intercept"])
    nnz = 14 if args.get("size", "small") == "wide" else 3
    if loss in ("Logistic", "HingeDual"):
        y = gen.target(rng, X, "clf", offset=0.5 if args["fit_intercept"] else 0.0)
    elif loss == "Poisson":
        y = gen.target(rng, X, "count")
    elif loss.startswith("Cox"):
        y = gen.target(rng, X, "surv")
        if args.get("variant") == "y_1d":
            y[:, 1] = 1.0                       # documented: a 1-d y is "times, no censoring"
    elif loss == "QuadraticMultiTask":
        y = gen.target(rng, X, "reg", n_tasks=2, offset=1.0, nnz=nnz)
    else:
        y = gen.target(rng, X, "reg", offset=1.5, nnz=nnz)
    if args.get("variant") == "high_snr":
        wt_ = np.zeros(P)
        wt_[rng.choice(P, 3, replace=False)] = rng.uniform(1.0, 3.0, 3)
        y = X @ wt_ + 0.03 * float(np.linalg.norm(X @ wt_)) / np.sqrt(N) * rng.standard_normal(N)
    n = N
    # ---- strength relative to the critical one of the documented objective
    yc = y - (y.mean(axis=0) if fi_doc and loss not in ("Logistic", "HingeDual", "Poisson") else 0.0)
    if loss == "QuadraticMultiTask":
        amax = float(np.max(np.linalg.norm(X.T @ yc, axis=1))) / n
    elif loss == "Logistic":
        amax = float(np.max(np.abs(X.T @ y))) / (2 * n)
    elif loss == "Poisson":
        amax = float(np.max(np.abs(X.T @ (1 - y)))) / n
    elif loss.startswith("Cox"):
        amax = 0.3
    elif loss == "SqrtQuadratic":
        amax = float(np.max(np.abs(X.T @ y)) / np.linalg.norm(y))
    else:
        amax = float(np.max(np.abs(X.T @ yc))) / n
    alpha = float(args["alpha"]) * amax
    l1r = float(args["l1_ratio"])
    gamma = float(args["gamma"])
    C = float(args["C"])
    wk = args["weights"]
    nblocks = P
    glist = None
    garg = None
    if est_name == "GroupLasso":
        garg, glist = _groups(args["groups"], rng)
        nblocks = len(glist)
    weights = None
    if wk != "none":
        m = nblocks if wk != "wrong_length" else nblocks + 2
        weights = rng.uniform(0.5, 2.0, m)
        if wk == "zeros":
            weights[rng.choice(m, max(1, m // 3 if nnz > 3 else m // 4), replace=False)] = 0.0
    tol = 1e-9
    wide = args.get("size", "small") == "wide"
    common = dict(tol=tol, max_iter=400) if wide else dict(tol=tol)
    kw = {}
    try:
        with warnings.catch_warnings():
            warnings.simplefilter("ignore")
            if est_name == "Lasso":
                est = skglm.Lasso(alpha=alpha, positive=args["positive"], fit_intercept=args["fit_intercept"], **common)
            elif est_name == "WeightedLasso":
                est = skglm.WeightedLasso(alpha=alpha, weights=weights, positive=args["positive"],
                                          fit_intercept=args["fit_intercept"], **common)
            elif est_name == "ElasticNet":
                est = skglm.ElasticNet(alpha=alpha, l1_ratio=l1r, positive=args["positive"],
                                       fit_intercept=args["fit_intercept"], **common)
            elif est_name == "MCPRegression":
                est = skglm.MCPRegression(alpha=alpha, gamma=gamma, weights=weights, positive=args["positive"],
                                          fit_intercept=args["fit_intercept"], **common)
            elif est_name == "GroupLasso":
                est = skglm.GroupLasso(groups=garg, alpha=alpha, weights=weights, positive=args["positive"],
                                       fit_intercept=args["fit_intercept"], **common)
            elif est_name == "MultiTaskLasso":
                est = skglm.MultiTaskLasso(alpha=alpha, fit_intercept=args["fit_intercept"], **common)
            elif est_name == "SparseLogisticRegression":
                est = skglm.SparseLogisticRegression(alpha=alpha, fit_intercept=args["fit_intercept"], **common)
            elif est_name == "LinearSVC":
                est = skglm.LinearSVC(C=C, fit_intercept=args["fit_intercept"], **common)
            elif est_name == "CoxEstimator":
                est = skglm.CoxEstimator(alpha=alpha, l1_ratio=l1r, method=args["method"], tol=tol, max_iter=200)
            elif est_name == "SqrtLasso":
                from skglm.experimental.sqrt_lasso import SqrtLasso
                est = SqrtLasso(alpha=alpha, tol=tol)
            else:
                d, p = doc["loss"], doc["penalty"]
                from skglm import datafits as D, penalties as Pn, solvers as S
                dfo = {"Quadratic": D.Quadratic, "Huber": lambda: D.Huber(1.0), "Logistic": D.Logistic,
                       "Poisson": D.Poisson}[d]()
                if p == "L1":
                    po = Pn.L1(alpha)
                elif p == "L1_plus_L2":
                    po = Pn.L1_plus_L2(alpha, 0.6)
                elif p == "MCPenalty":
                    po = Pn.MCPenalty(alpha, gamma)
                else:
                    weights = rng.uniform(0.5, 2.0, P)
                    weights[[1, 4]] = 0.0
                    if wide:
                        weights[rng.choice(P, P // 3, replace=False)] = 0.0
                    po = Pn.WeightedL1(alpha, weights)
                # (Logistic through prox-Newton, as SparseLogisticRegression does: AndersonCD's damped Logistic
                #  intercept step -- known finding -- needs thousands of iterations on the wide designs)
                so = S.ProxNewton(tol=tol, fit_intercept=args["fit_intercept"]) if d in ("Poisson", "Logistic") else \
                    S.AndersonCD(tol=tol, fit_intercept=args["fit_intercept"], **({"max_iter": 400} if wide else {}))
                est = skglm.GeneralizedLinearEstimator(dfo, po, so)
            Xs = sparse.csc_matrix(X) if args["storage"] == "csc" else X
            est.fit(Xs, y[:, 0].copy() if args.get("variant") == "y_1d" else y)
        exc = None
    except BaseException as e:  # noqa: BLE001
        if isinstance(e, (KeyboardInterrupt, SystemExit)):
            raise
        exc = (type(e).__name__, str(e)[:300])
    f.meta["exc"] = exc
    if doc["expect"] == "ValueError":
        f.flag("refused_as_documented", exc is not None and exc[0] == "ValueError")
        return f.trace()
    f.flag("fits", exc is None)
    if exc is not None:
        return f.trace()
    # ---- the documented problem, built from the descriptor (never from est internals)
    pk = doc["penalty"]
    pos = bool(doc["positive"])
    if pk == "L1":
        pend = {"kind": "L1", "alpha": alpha, "positive": pos}
    elif pk == "WeightedL1":
        pend = {"kind": "WeightedL1", "alpha": alpha, "weights": weights.tolist(), "positive": pos}
    elif pk == "L1_plus_L2":
        pend = {"kind": "L1_plus_L2", "alpha": alpha, "l1_ratio": 0.6 if est_name.startswith("Generalized") else l1r,
                "positive": pos}
    elif pk == "L2":
        pend = {"kind": "L2", "alpha": alpha}
    elif pk == "MCPenalty":
        pend = {"kind": "MCPenalty", "alpha": alpha, "gamma": gamma, "positive": pos}
    elif pk == "WeightedMCPenalty":
        pend = {"kind": "WeightedMCPenalty", "alpha": alpha, "gamma": gamma, "weights": weights.tolist(),
                "positive": pos}
    elif pk == "L2_1":
        pend = {"kind": "L2_1", "alpha": alpha}
    elif pk == "WeightedGroupL2":
        ptr = [0]
        idx = []
        for g in glist:
            idx += g
            ptr.append(len(idx))
        pend = {"kind": "WeightedGroupL2", "alpha": alpha,
                "weights": (np.ones(len(glist)) if weights is None else weights).tolist(),
                "grp_ptr": ptr, "grp_indices": idx, "positive": pos}
    elif pk == "IndicatorBox":
        pend = {"kind": "IndicatorBox", "alpha": C}
    lossd = {"Quadratic": {"kind": "Quadratic"}, "QuadraticGroup": {"kind": "Quadratic"},
             "QuadraticMultiTask": {"kind": "QuadraticMultiTask"}, "Logistic": {"kind": "Logistic"},
             "HingeDual": {"kind": "QuadraticSVC"}, "CoxEfron": {"kind": "Cox", "use_efron": True},
             "CoxBreslow": {"kind": "Cox", "use_efron": False}, "SqrtQuadratic": {"kind": "SqrtQuadratic"},
             "Huber": {"kind": "Huber", "delta": 1.0}, "Poisson": {"kind": "Poisson"}}[loss]
    coef = np.asarray(est.coef_, dtype=float)
    icpt = np.asarray(getattr(est, "intercept_", 0.0), dtype=float)
    if loss in ("Logistic", "HingeDual") and est_name != "GeneralizedLinearEstimator":
        ylab = np.where(y == est.classes_[1], 1.0, -1.0)
    elif loss == "Logistic":
        ylab = np.where(y == est.classes_[1], 1.0, -1.0)
    else:
        ylab = y
    scale_tol = 1e-6
    if loss == "HingeDual":
        yXT = (X * ylab[:, None]).T
        dual = np.asarray(est.dual_coef_, dtype=float).ravel()
        prob = dict(X=yXT, y=ylab, datafit=lossd, penalty=pend, fit_intercept=False)
        viol = PB.violation(prob, dual)[0]
        f.le("stationary", viol, scale_tol * PB.null_scale(prob))
        f.flag("dual_feasible", bool(np.all(dual >= 0) and np.all(dual <= C)))
        img = (ylab * dual) @ X
        f.le("primal_image", float(np.max(np.abs(img - coef.ravel()))), 1e-9 * max(1.0, float(np.abs(img).max())))
        # documented: fit_intercept = "whether or not to fit an intercept"
        if doc["intercept_documented"]:
            marg = ylab * (X @ coef.ravel() + float(np.ravel(icpt)[0]))
            lo = -C * np.sum(ylab[(marg < 1 - 1e-9)]) - C * np.sum(np.maximum(ylab[np.abs(marg - 1) <= 1e-9], 0))
            hi = -C * np.sum(ylab[(marg < 1 - 1e-9)]) - C * np.sum(np.minimum(ylab[np.abs(marg - 1) <= 1e-9], 0))
            f.flag("intercept_param", bool(lo <= 1e-9 and hi >= -1e-9))
        return f.trace()
    if loss == "QuadraticMultiTask":
        W = coef.T
        w = np.vstack([W, icpt.reshape(1, -1)]) if fi_doc else W
    else:
        w = np.concatenate([coef.ravel(), np.ravel(icpt)[:1]]) if fi_doc else coef.ravel()
    if not fi_doc:
        f.flag("no_intercept_when_disabled", bool(np.all(np.ravel(icpt) == 0)))
    prob = dict(X=X, y=ylab, datafit=lossd, penalty=pend, fit_intercept=fi_doc)
    try:
        viol = PB.violation(prob, w)[0]
        sc = PB.null_scale(prob)
    except Exception as e:  # noqa: BLE001
        f.meta["oracle_exc"] = type(e).__name__ + str(e)[:100]
        viol, sc = float("nan"), 1.0
    f.meta["viol"] = viol
    # (the wide designs get max_iter = 400: these problems converge in a few dozen outer iterations, so a fit that
    #  exhausts that budget is not minimising its objective)
    crit = getattr(est, "stop_crit_", None)
    f.meta["converged"] = bool(crit is None or float(np.max(crit)) <= 100 * tol)
    f.le("stationary", viol, scale_tol * sc)
    if pos:
        f.flag("positive_respected", bool(np.all(coef >= 0)))
    return f.trace()


MINE = {"stationary", "primal_image", "dual_feasible", "refused_as_documented", "fits", "intercept_param",
        "no_intercept_when_disabled", "positive_respected"}


def run(prop, tier, seed):
    ck = CK.Check(prop, tier, seed)
    ck.cov["rule"] = (
        "constructor call = one behaviour of specs/api/Estimator.tla (estimator x alpha fraction x l1_ratio "
        "{0,.3,1} x C x gamma x weights {none, random, with zeros, wrong length} x the three `groups` formats "
        "x positive x fit_intercept x method x storage), with the documented objective descriptor computed by "
        "the spec; drawn by tlc -simulate. Distinct = distinct argument tuples; non-trivial = the fit returned "
        "and the residual of the documented objective was evaluated (or the documented refusal was judged).")
    ck.cov["trusted_base"] = ["transcription of the class docstrings in specs/api/Estimator.tla", "harness/oracle",
                              "TLC 1.8"]
    ck.assumptions = ["fits run at tol 1e-9; stationarity judged at 1e-6 * scale; designs n=36, p=10 and n=60, p=80 (AR 0.5, support 14, up to 26 zero weights)"]
    try:
        r = tlc.run("Estimator", cfg_text="SPECIFICATION Spec\nCHECK_DEADLOCK FALSE\n",
                    simulate=f"num={N_ARGS[tier]}", depth=6, seed=seed, timeout=600)
        items = r["printed"]
        ck.add_tlc(dict(distinct=len(items), states=len(items), wall_s=r["wall_s"]),
                   name="Estimator -simulate (constructor calls + documented descriptors)", kind="scenario generator")
    except tlc.TLCError as e:
        ck.machinery(str(e)[:2000])
        return ck.finish()
    seen, uniq = set(), []
    for it in items + SENTINELS:
        k = json.dumps(it["args"], sort_keys=True)
        if k not in seen:
            seen.add(k)
            uniq.append(it)
    jobs = [(it, seed, i + 1) for i, it in enumerate(uniq)]
    res, errs = pool.map_grouped("harness.checks.estim", "run_one", jobs, key=lambda j: j[0]["args"]["est"], chunk=20)
    for it, msg, tb in errs:
        ck.machinery(f"driver failed on {it[0]['args'] if it else None}: {msg}\n{tb}")
    if errs:
        return ck.finish()
    try:
        v = rel.judge(res)
    except tlc.TLCError as e:
        ck.machinery(str(e)[:2000])
        return ck.finish()
    ck.add_verdicts(v)
    for t in res:
        names = {c for c, _ in v.bad(t["id"])}
        meta = t["meta"]
        a = meta["args"]
        ck.count(json.dumps(a, sort_keys=True), meta["exc"] is None or meta["doc"]["expect"] == "ValueError")
        ck.cov["traces_validated_against_impl"] += 1
        for e in t["events"]:
            if e["when"]:
                ck.clause(e["c"], e["c"] not in names)
        for c in sorted(names & MINE):
            m2 = dict(a, clause=c, exc_type=(meta["exc"] or [None])[0], doc_loss=meta["doc"]["loss"],
                      doc_penalty=meta["doc"]["penalty"])
            ck.violation(c, m2, dict(kind="estimator_call", replay_module="harness.checks.estim", property=prop,
                                     clause=c, item=dict(args=a, doc=meta["doc"]), seed=meta["seed"]))
        if len(ck.cov["samples"]) < 6:
            ck.sample(dict(args=a, documented=meta["doc"], exc=meta["exc"], residual=meta.get("viol"),
                           verdict=sorted(names)))
    return ck.finish()


def _a(**kw):
    base = dict(est="", alpha="0.05", l1_ratio="0.3", C="1", gamma="3", weights="none", groups="int",
                positive=False, fit_intercept=True, method="efron", gle=["Quadratic", "L1"], storage="dense",
                size="small", variant="plain")
    base.update(kw)
    return base


def _doc(loss, pen, intercept, positive=False, expect="fit", idoc=None):
    return dict(loss=loss, penalty=pen, intercept=intercept, positive=positive,
                intercept_documented=intercept if idoc is None else idoc, expect=expect)


# permanent directed calls (DESIGN section 11: #16 method, #29 LinearSVC intercept, weights / groups formats)
SENTINELS = [
    dict(args=_a(est="CoxEstimator", method="breslow", l1_ratio="1"), doc=_doc("CoxBreslow", "L1", False)),
    dict(args=_a(est="CoxEstimator", method="breslow", l1_ratio="0.3"), doc=_doc("CoxBreslow", "L1_plus_L2", False)),
    dict(args=_a(est="CoxEstimator", method="efron", l1_ratio="0"), doc=_doc("CoxEfron", "L2", False)),
    dict(args=_a(est="LinearSVC", C="0.1", fit_intercept=True), doc=_doc("HingeDual", "IndicatorBox", False, idoc=True)),
    dict(args=_a(est="GroupLasso", groups="lists_permuted", weights="zeros"), doc=_doc("QuadraticGroup", "WeightedGroupL2", True)),
    dict(args=_a(est="GroupLasso", groups="sizes", weights="random", positive=True), doc=_doc("QuadraticGroup", "WeightedGroupL2", True, True)),
    dict(args=_a(est="MCPRegression", weights="zeros", gamma="3"), doc=_doc("Quadratic", "WeightedMCPenalty", True)),
    dict(args=_a(est="ElasticNet", l1_ratio="0"), doc=_doc("Quadratic", "L1_plus_L2", True)),
    dict(args=_a(est="WeightedLasso", weights="wrong_length"), doc=_doc("Quadratic", "WeightedL1", True, expect="ValueError")),
    dict(args=_a(est="SqrtLasso", variant="high_snr", alpha="0.05"), doc=_doc("SqrtQuadratic", "L1", False)),
    dict(args=_a(est="SqrtLasso", variant="high_snr", alpha="0.3"), doc=_doc("SqrtQuadratic", "L1", False)),
    dict(args=_a(est="CoxEstimator", variant="y_1d", method="breslow", l1_ratio="1"), doc=_doc("CoxBreslow", "L1", False)),
    dict(args=_a(est="CoxEstimator", variant="y_1d", method="efron", l1_ratio="0.3"), doc=_doc("CoxEfron", "L1_plus_L2", False)),
    # more unpenalised features than p0, working set a strict subset of the features
    dict(args=_a(est="WeightedLasso", weights="zeros", size="wide"), doc=_doc("Quadratic", "WeightedL1", True)),
    dict(args=_a(est="WeightedLasso", weights="zeros", size="wide", storage="csc", fit_intercept=False),
         doc=_doc("Quadratic", "WeightedL1", False)),
    dict(args=_a(est="MCPRegression", weights="zeros", size="wide", alpha="0.3"), doc=_doc("Quadratic", "WeightedMCPenalty", True)),
    dict(args=_a(est="GeneralizedLinearEstimator", gle=["Quadratic", "WeightedL1"], size="wide"),
         doc=_doc("Quadratic", "WeightedL1", True)),
    dict(args=_a(est="Lasso", size="wide", alpha="0.05", storage="csc"), doc=_doc("Quadratic", "L1", True)),
    dict(args=_a(est="ElasticNet", size="wide", l1_ratio="0.3", positive=True), doc=_doc("Quadratic", "L1_plus_L2", True, True)),
]


def replay(rp):
    t = run_one(rp["item"], rp["seed"], 1)
    v = rel.judge([t])
    print("args:", rp["item"]["args"], "exc:", t["meta"].get("exc"), "residual:", t["meta"].get("viol"),
          "verdict:", v.bad(1))
    if any(c == rp["clause"] for c, _ in v.bad(1)):
        print(f"REPRODUCED clause={rp['clause']} property={rp['property']}")
        return 1
    print("not reproduced on the current tree")
    return 0
