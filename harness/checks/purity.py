"""C18: fitting is pure. Histories from specs/api/Purity.tla, each executed in its own process;
every fit is compared with the result of a fresh process; inputs are compared byte for byte."""
import copy
import json
import os
import pickle
import warnings

import numpy as np

from .. import check as CK
from .. import gen, pool, rel, tlc

N, P = 30, 8
N_HIST = {"quick": 14, "thorough": 600}


def dataset(kind, seed):
    from scipy import sparse
    rng = gen.rng_for(seed, "purity-data")
    X = gen.design(rng, N, P, rho=0.3)
    X = X * (rng.random(X.shape) < 0.8)
    y = gen.target(rng, X, "reg", offset=1.0)
    yc = gen.target(rng, X, "clf")
    if kind == "f32":
        return np.asfortranarray(X.astype(np.float32)), y.astype(np.float32), yc
    if kind == "csc":
        return sparse.csc_matrix(X), y, yc
    return np.asfortranarray(X), y, yc


def pool_of(seed):
    """estimators (fresh objects) and the user arrays they hold"""
    import skglm
    from skglm.datafits import Huber, WeightedQuadratic, Quadratic
    from skglm.penalties import MCPenalty, L1, L0_5
    from skglm.solvers import AndersonCD
    from skglm.experimental.reweighted import IterativeReweightedL1
    rng = gen.rng_for(seed, "purity-pool")
    weights = rng.uniform(0.5, 2.0, P)
    weights[2] = 0.0
    sw = rng.uniform(0.5, 2.0, N)
    groups = [[5, 0, 2], [7, 1], [3, 4, 6]]
    arrays = dict(weights=weights, sample_weights=sw)
    ests = {
        "LassoA": skglm.Lasso(alpha=0.05, tol=1e-10),
        "LassoB": skglm.Lasso(alpha=0.3, tol=1e-10, fit_intercept=False),
        "GLE_Huber_MCP": skglm.GeneralizedLinearEstimator(Huber(1.0), MCPenalty(0.05, 10.0), AndersonCD(tol=1e-10)),
        "SparseLogReg": skglm.SparseLogisticRegression(alpha=0.02, tol=1e-10),
        "Reweighted": IterativeReweightedL1(Quadratic(), L0_5(0.05), AndersonCD(tol=1e-10, fit_intercept=False)),
        "WeightedLasso": skglm.WeightedLasso(alpha=0.05, weights=weights, tol=1e-10),
        "GroupLasso": skglm.GroupLasso(groups=groups, alpha=0.05, tol=1e-10),
        "GLE_WeightedQuadratic": skglm.GeneralizedLinearEstimator(WeightedQuadratic(sw), L1(0.05), AndersonCD(tol=1e-10)),
        "ElasticNetWarm": skglm.ElasticNet(alpha=0.05, l1_ratio=0.7, tol=1e-10, warm_start=False),
    }
    return ests, arrays, groups


def _bytes(a):
    from scipy import sparse
    if sparse.issparse(a):
        return a.data.tobytes() + a.indices.tobytes() + a.indptr.tobytes()
    return np.asarray(a).tobytes()


def _result(est):
    c = np.ravel(np.asarray(est.coef_, dtype=float))
    i = np.ravel(np.asarray(getattr(est, "intercept_", 0.0), dtype=float))
    return np.concatenate([c, i]).tolist()


def run_history(h, seed, hid):
    """worker (fresh process): execute the history; return per-fit observations."""
    ests, arrays, groups = pool_of(seed)
    groups0 = json.dumps(groups)
    obs = []
    datasets = {}
    for k, op in enumerate(h["hist"]):
        e, d = op["est"], op["data"]
        est = ests[e]
        if d not in datasets:
            datasets[d] = dataset(d, seed)
        X, y, yc = datasets[d]
        yy = yc if e == "SparseLogReg" else y
        before = {"X": _bytes(X), "y": _bytes(yy), "weights": _bytes(arrays["weights"]),
                  "sample_weights": _bytes(arrays["sample_weights"])}
        rec = dict(k=k, op=op["op"], est=e, data=d, exc=None, result=None, alpha=getattr(est, "alpha", None))
        try:
            with warnings.catch_warnings():
                warnings.simplefilter("ignore")
                if op["op"] == "fit":
                    est.fit(X, yy)
                    rec["result"] = _result(est)
                elif op["op"] == "path":
                    al = np.array([0.3, 0.1, 0.03])
                    out = est.path(X, yy, al)
                    rec["result"] = np.ravel(out[1]).astype(float).tolist()
                elif op["op"] == "set_alpha":
                    if hasattr(est, "alpha"):
                        est.set_params(alpha=est.alpha * 0.5)
                elif op["op"] == "clone":
                    from sklearn.base import clone
                    ests[e] = clone(est)
                elif op["op"] == "deepcopy":
                    ests[e] = copy.deepcopy(est)
                elif op["op"] == "pickle":
                    ests[e] = pickle.loads(pickle.dumps(est))
                elif op["op"] == "copy_bare_datafit":
                    dfo = getattr(est, "datafit", None)
                    if dfo is None:
                        from skglm.datafits import Quadratic, Logistic
                        dfo = Logistic() if e == "SparseLogReg" else Quadratic()
                    copy.deepcopy(dfo)
                    pickle.loads(pickle.dumps(dfo)) if not hasattr(dfo, "_numba_type_") else None
                elif op["op"] == "copy_bare_penalty":
                    pno = getattr(est, "penalty", None)
                    if pno is None:
                        from skglm.penalties import L1
                        pno = L1(0.1)
                    copy.deepcopy(pno)
        except BaseException as ex:  # noqa: BLE001
            if isinstance(ex, (KeyboardInterrupt, SystemExit)):
                raise
            rec["exc"] = (type(ex).__name__, str(ex)[:200])
        after = {"X": _bytes(X), "y": _bytes(yy), "weights": _bytes(arrays["weights"]),
                 "sample_weights": _bytes(arrays["sample_weights"])}
        rec["touched"] = [name for name in before if before[name] != after[name]]
        if json.dumps(groups) != groups0:
            rec["touched"].append("groups")
        rec["alpha_after"] = getattr(ests[e], "alpha", None)
        obs.append(rec)
    return dict(hid=hid, hist=h["hist"], obs=obs)



# ------------------------------------------------------------------ solver level: solve() is pure too
SOLVE_COMPS = [
    ("PDCD_WS", "Pinball", "L1", "dual_init"), ("PDCD_WS", "SqrtQuadratic", "L1", "dual_init"),
    ("AndersonCD", "WeightedQuadratic", "WeightedL1", None), ("AndersonCD", "Quadratic", "WeightedMCPenalty", None),
    ("ProxNewton", "Logistic", "WeightedL1", None), ("GroupBCD", "QuadraticGroup", "WeightedGroupL2", None),
    ("GroupBCD", "QuadraticGroup", "WeightedL1GroupL2", None), ("MultiTaskBCD", "QuadraticMultiTask", "L2_1", None),
    ("FISTA", "Quadratic", "WeightedL1", None), ("GramCD", "None", "WeightedL1", None), ("LBFGS", "Logistic", "L2", None),
    # solves that stop on their BUDGET in the middle of an extrapolation cycle (period 7 for AndersonAcceleration(K=5),
    # 6 for MultiTaskBCD): whatever the accelerator, the momentum or the working set remembers must not reach the
    # next solve of the same object
    ("GramCD", "None", "WeightedL1", "budget"), ("AndersonCD", "Quadratic", "WeightedL1", "budget"),
    ("MultiTaskBCD", "QuadraticMultiTask", "L2_1", "budget"), ("FISTA", "Quadratic", "WeightedL1", "budget"),
    ("GroupBCD", "QuadraticGroup", "WeightedGroupL2", "budget"), ("ProxNewton", "Logistic", "WeightedL1", "budget"),
]


def run_solve_purity(comp, storage, seed, tid):
    """worker: the same solver object solves twice; every user-supplied array (X, y, w_init, Xw_init, penalty weights,
    sample weights, group arrays, PDCD_WS.dual_init) must be byte-identical afterwards and the second solve must give
    what a fresh solver gives."""
    from .. import skl
    import scipy.sparse as sp
    s, d, pk, special = comp
    rng = gen.rng_for(seed, "solve-purity", comp, storage)
    n, p = 30, 12
    X = np.asfortranarray(rng.standard_normal((n, p)))
    if d == "Logistic":
        y = np.sign(rng.standard_normal(n))
    elif d == "QuadraticMultiTask":
        y = np.asfortranarray(rng.standard_normal((n, 2)))
    else:
        y = rng.standard_normal(n) + 1.0
    arrays = {}
    sw = rng.uniform(0.5, 2.0, n)
    wts = rng.uniform(0.5, 2.0, p)
    ptr = np.array([0, 3, 6, 9, 12], dtype=np.int32)
    idx = rng.permutation(p).astype(np.int32)
    gw = rng.uniform(0.5, 2.0, 4)
    if d == "WeightedQuadratic":
        from skglm.datafits import WeightedQuadratic
        raw_df = WeightedQuadratic(sw)
        arrays["sample_weights"] = sw
    elif d == "QuadraticGroup":
        from skglm.datafits import QuadraticGroup
        raw_df = QuadraticGroup(ptr, idx)
        arrays.update(grp_ptr=ptr, grp_indices=idx)
    elif d == "None":
        raw_df = None
    else:
        raw_df = skl.raw_datafit({"kind": d, **({"quantile_level": 0.3} if d == "Pinball" else {})})
    from skglm import penalties as P
    al = 0.05
    if pk == "L1":
        raw_pen = P.L1(al)
    elif pk == "L2":
        raw_pen = P.L2(al)
    elif pk == "L2_1":
        raw_pen = P.L2_1(al)
    elif pk == "WeightedL1":
        raw_pen = P.WeightedL1(al, wts)
        arrays["weights"] = wts
    elif pk == "WeightedMCPenalty":
        raw_pen = P.WeightedMCPenalty(al, 3.0, wts)
        arrays["weights"] = wts
    elif pk == "WeightedGroupL2":
        raw_pen = P.WeightedGroupL2(al, gw, ptr, idx)
        arrays.update(weights_groups=gw, grp_ptr=ptr, grp_indices=idx)
    else:
        raw_pen = P.WeightedL1GroupL2(al, gw, wts, ptr, idx)
        arrays.update(weights_groups=gw, weights_features=wts, grp_ptr=ptr, grp_indices=idx)
    if storage == "csc_unsorted":
        from .. import solve as SV
        Xs = SV.as_rep(X, "csc_unsorted")          # a valid CSC matrix whose row indices are not sorted
    else:
        Xs = sp.csc_matrix(X) if storage == "csc" else X
    T = () if y.ndim == 1 else (y.shape[1],)
    fi = s in ("AndersonCD", "ProxNewton", "GroupBCD", "MultiTaskBCD")
    w0 = np.zeros((p + int(fi),) + T)
    w0[:3] = 0.1
    Xw0 = (X @ w0[:p] + (w0[-1] if fi else 0.0))
    if s == "MultiTaskBCD":
        Xw0 = np.asfortranarray(Xw0)
    f = rel.Facts(tid, dict(solver=s, datafit=d, penalty=pk, storage=storage, seed=seed, special=special))

    def make():
        kw = dict(tol=1e-10)
        if fi:
            kw["fit_intercept"] = True
        if special == "budget":
            if s == "GramCD":
                return skl.solver(s, max_iter=12, use_acc=True, **kw), None
            if s == "FISTA":
                return skl.solver(s, max_iter=12, **kw), None
            if s == "ProxNewton":
                return skl.solver(s, max_iter=3, **kw), None
            return skl.solver(s, max_iter=2, max_epochs=10, p0=4, **kw), None
        if s == "PDCD_WS":
            dual = rng2.uniform(-0.2, 0.2, n)
            return skl.solver(s, max_iter=30, dual_init=dual, **kw), dual
        if s in ("FISTA", "GramCD", "LBFGS"):
            return skl.solver(s, max_iter=300, **kw), None
        if pk == "WeightedL1GroupL2":
            kw["ws_strategy"] = "fixpoint"
        return skl.solver(s, max_iter=30, **kw), None
    rng2 = np.random.default_rng(5)
    slv, dual = make()
    if dual is not None:
        arrays["dual_init"] = dual
    arrays.update(X=Xs, y=y)
    before = {k: _bytes(v) for k, v in arrays.items()}

    def params(sv):
        """the solver's own hyper-parameters (scalars and arrays it was constructed with)"""
        out = {}
        for k_, v_ in vars(sv).items():
            if callable(v_) or k_.startswith("__"):
                continue
            out[k_] = _bytes(v_) if isinstance(v_, np.ndarray) else repr(v_)
        return out
    params0 = params(slv)
    # outer iterations of each solve, observed at the solvers' `record` hook (one event per recorded objective)
    from skglm import _verif
    nrec = [0]

    def count_records(kind, fields):
        if kind == "record":
            nrec[0] += 1
    prev_sink = _verif.set_sink(count_records)
    records = []
    results = []
    hists = []
    params_same = []
    exc = None
    try:
        with warnings.catch_warnings():
            warnings.simplefilter("ignore")
            for k in range(2):
                df = None if raw_df is None else skl.compiled_clone(raw_df)
                pen = skl.compiled_clone(raw_pen)
                if df is not None and hasattr(df, "initialize") and s in ("ProxNewton", "FISTA", "LBFGS", "PDCD_WS"):
                    if storage.startswith("csc") and hasattr(df, "initialize_sparse"):
                        df.initialize_sparse(Xs.data, Xs.indptr, Xs.indices, y)
                    else:
                        df.initialize(X, y)
                wi, Xwi = w0.copy(), np.array(Xw0, copy=True, order="F" if Xw0.ndim == 2 else "C")
                b_wi, b_Xwi = wi.tobytes(), Xwi.tobytes()
                nrec[0] = 0
                res = slv.solve(Xs, y, df, pen)
                records.append(nrec[0])
                results.append(np.array(res[0], dtype=float, copy=True))
                hists.append(np.array(res[1], dtype=float, copy=True).ravel())
                # solving does not change the solver's hyper-parameters
                pnow = params(slv)
                # (only what the solver was constructed with: a new private attribute is not a changed hyper-parameter)
                changed = sorted(k2 for k2 in params0 if pnow.get(k2) != params0[k2])
                f.flag("solver_params_untouched", not changed)
                params_same.append(not changed)
                if changed:
                    f.meta.setdefault("solver_attrs_changed", []).append([k, changed])
                touched = [k2 for k2, v in arrays.items() if _bytes(v) != before[k2]]
                f.flag("inputs_untouched", not touched)
                if touched:
                    f.meta.setdefault("touched", []).append([k, touched])
            # a fresh solver object, same arguments
            rng2 = np.random.default_rng(5)
            slv2, _d2 = make()
            df = None if raw_df is None else skl.compiled_clone(raw_df)
            pen = skl.compiled_clone(raw_pen)
            if df is not None and hasattr(df, "initialize") and s in ("ProxNewton", "FISTA", "LBFGS", "PDCD_WS"):
                if storage == "csc" and hasattr(df, "initialize_sparse"):
                    df.initialize_sparse(Xs.data, Xs.indptr, Xs.indices, y)
                else:
                    df.initialize(X, y)
            rfresh = slv2.solve(Xs, y, df, pen)
            fresh = np.array(rfresh[0], dtype=float, copy=True)
            hfresh = np.array(rfresh[1], dtype=float, copy=True).ravel()
            # the SAME solver object on a design buffer refilled in place (same id, same shape, other numbers):
            # nothing remembered from the earlier solves may leak into this one
            X2 = np.asfortranarray(X * rng.uniform(0.5, 3.0, p) + 0.3 * rng.standard_normal(X.shape))
            if storage.startswith("csc"):
                A2 = sp.csc_matrix(X2)
                if storage == "csc_unsorted":
                    from .. import solve as SV
                    A2 = SV.as_rep(X2, "csc_unsorted")
                Xs.data[:] = A2.data
            else:
                np.copyto(Xs, X2)

            def solve_on(slv_):
                df_ = None if raw_df is None else skl.compiled_clone(raw_df)
                pen_ = skl.compiled_clone(raw_pen)
                if df_ is not None and hasattr(df_, "initialize") and s in ("ProxNewton", "FISTA", "LBFGS", "PDCD_WS"):
                    if storage.startswith("csc") and hasattr(df_, "initialize_sparse"):
                        df_.initialize_sparse(Xs.data, Xs.indptr, Xs.indices, y)
                    else:
                        df_.initialize(X2, y)
                r_ = slv_.solve(Xs, y, df_, pen_)
                return np.array(r_[0], dtype=float, copy=True), np.array(r_[1], dtype=float, copy=True).ravel()
            nrec[0] = 0
            third, hthird = solve_on(slv)
            records.append(nrec[0])
            pnow = params(slv)
            params_same.append(not [k2 for k2 in params0 if pnow.get(k2) != params0[k2]])
            rng2 = np.random.default_rng(5)
            fresh3, hfresh3 = solve_on(make()[0])
    except Exception as e:  # noqa: BLE001
        exc = (type(e).__name__, str(e)[:200])
    finally:
        _verif.set_sink(prev_sink)
    f.meta["exc"] = exc
    f.flag("solve_runs", exc is None)
    if exc is None:
        tol = 1e-7 * max(1.0, float(np.abs(fresh).max()))
        f.le("resolve_same_as_fresh", float(np.max(np.abs(results[1] - fresh))), tol)
        f.le("resolve_same_as_first", float(np.max(np.abs(results[1] - results[0]))), tol)
        # ... and the diagnostics of the second solve are those of a fresh solver (nothing accumulated)
        # (sparse designs: the Lipschitz constants come from a randomly started power method, so two solves of the same
        #  problem may differ by an iteration at tol 1e-10; there the history is compared with the iterations observed)
        same_len = len(hists[1]) == (len(hfresh) if storage == "dense" else records[1])
        f.flag("resolve_history_same_as_fresh", same_len)
        if same_len and len(hfresh) and storage == "dense":
            f.le("resolve_history_same_as_fresh", float(np.max(np.abs(hists[1] - hfresh))),
                 1e-8 * max(1.0, float(np.max(np.abs(hfresh)))))
        f.le("refilled_same_as_fresh", float(np.max(np.abs(third - fresh3))),
             1e-7 * max(1.0, float(np.abs(fresh3).max())))
    out = f.trace()
    if exc is None and len(records) == 3 and min(records) >= 1 and _verif.ON:
        # the same observations as ONE behaviour of specs/solvers/SolverObject.tla (validated by SolverObjectTrace):
        # one Iterate step per `record` event observed inside the solve
        tol3 = 1e-7 * max(1.0, float(np.abs(fresh3).max()))

        def ev(res_, hist_, ref_, nrec_, same_, tol_):
            return dict(ev="Solve", b=1, iters=int(nrec_), histLen=int(len(hist_)), paramsSame=bool(same_),
                        fresh=bool(float(np.max(np.abs(res_ - ref_))) <= tol_))
        out["object_trace"] = dict(id=tid, events=[
            ev(results[0], hists[0], fresh, records[0], params_same[0], tol),
            ev(results[1], hists[1], fresh, records[1], params_same[1], tol),
            dict(ev="Refill", b=1),
            ev(third, hthird, fresh3, records[2], params_same[2], tol3)])
    return out


def judge_object_traces(otraces):
    """{trace id: (accepted, line reached, n)} from one TLC run of specs/trace/SolverObjectTrace.tla"""
    import tempfile
    os.makedirs(tlc.WORK, exist_ok=True)
    fd, path = tempfile.mkstemp(prefix="objtraces_", suffix=".json", dir=tlc.WORK)
    with os.fdopen(fd, "w") as fh:
        json.dump({"traces": otraces}, fh)
    try:
        r = tlc.run("SolverObjectTrace", "SolverObjectTrace.cfg", env={"TRACE_FILE": path}, timeout=600)
    finally:
        os.unlink(path)
    if r["violated"]:
        raise tlc.TLCError(f"SolverObjectTrace: design invariant {r['violated']} violated on a recorded trace")
    reached = {t["id"]: 1 for t in otraces}
    for pr in r["printed"]:
        if isinstance(pr, dict) and pr.get("v") == 2:
            reached[pr["id"]] = max(reached.get(pr["id"], 1), pr["l"])
    return {t["id"]: (reached[t["id"]] == len(t["events"]) + 1, reached[t["id"]], len(t["events"])) for t in otraces}, r


SOLVER_OBJECT_NEG = (("SolverObject_neg_history.cfg", "HistPerSolve"), ("SolverObject_neg_clamp.cfg", "ParamsStable"),
                     ("SolverObject_neg_identity_cache.cfg", "FreshData"))


def solver_object_design(ck):
    """specs/solvers/SolverObject.tla: what may survive a solve on the solver object. Holds for the code's constants
    (history local, clamping local, no cache or a cache keyed by content), refuted for the three variants it excludes."""
    for cfg in ("SolverObject_design.cfg", "SolverObject_design_content_cache.cfg"):
        rd = tlc.run("SolverObject", cfg, timeout=300)
        ck.add_tlc(rd, name=f"SolverObject {cfg} (HistPerSolve, ParamsStable, WsFromCtor, FreshData)", kind="design")
        if rd["violated"]:
            ck.machinery(f"SolverObject {cfg} violates {rd['violated']}")
    for neg, inv in SOLVER_OBJECT_NEG:
        rn = tlc.run("SolverObject", neg, timeout=300)
        ck.cov.setdefault("design_models", []).append(dict(name=f"SolverObject {neg}", violated=rn["violated"], expected_to_violate=True))
        if inv not in rn["violated"]:
            ck.cov["notes"].append(f"{neg} no longer violates {inv}: the negative model lost its teeth")


APALACHE_STEPS = (("Init", "IndInv", 0, "NoError"), ("IndInit", "IndInv", 1, "NoError"),
                  ("IndInit", "FreshStep", 1, "NoError"), ("IndInit", "Safe", 0, "NoError"),
                  ("IndInit", "NoDeepState", 0, "Error"))


def solver_object_inductive(ck):
    """Unbounded safety of SolverObject for the code's constants: an inductive invariant discharged by Apalache
    (base, step, the action invariant FreshStep, IndInv => properties) + a non-vacuity control that must be refuted."""
    for init, inv, length, want in APALACHE_STEPS:
        r = tlc.apalache("MC_SolverObject", init, inv, length)
        ck.cov["design_models"].append(dict(model=f"MC_SolverObject apalache --init={init} --inv={inv} --length={length}",
                                            kind="inductive invariant (Apalache 0.58)", outcome=r["outcome"],
                                            expected=want, wall_s=r["wall_s"]))
        if r["outcome"] != want:
            ck.machinery(f"Apalache: MC_SolverObject --init={init} --inv={inv} --length={length} gave {r['outcome']}, expected {want}")


def solve_purity_binding(ck, tier, seed):
    try:
        solver_object_design(ck)
        if tier == "thorough":
            solver_object_inductive(ck)
    except tlc.TLCError as e:
        ck.machinery(str(e)[:2000])
        return
    items = []
    tid = 800000
    for comp in SOLVE_COMPS:
        for st in ("dense", "csc", "csc_unsorted"):
            if st != "dense" and (comp[0] in ("PDCD_WS", "GroupProxNewton") or comp[1] == "Pinball"):
                continue
            if st != "dense" and comp[3] == "budget":
                continue        # sparse Lipschitz constants start from a random vector: unconverged iterates differ
            if st == "csc_unsorted" and comp[0] not in ("AndersonCD", "ProxNewton", "FISTA", "GroupBCD"):
                continue
            tid += 1
            items.append((comp, st, seed, tid))
    res, errs = pool.map_grouped("harness.checks.purity", "run_solve_purity", items, key=lambda it: it[0], chunk=4)
    for it, msg, tb in errs:
        ck.machinery(f"solve purity driver failed on {it}: {msg}\n{tb}")
    if errs:
        return
    try:
        v = rel.judge(res)
    except tlc.TLCError as e:
        ck.machinery(str(e)[:2000])
        return
    ck.add_verdicts(v)
    for t in res:
        names = {c for c, _ in v.bad(t["id"])}
        meta = t["meta"]
        ck.count("solve:" + json.dumps({k: meta[k] for k in ("solver", "datafit", "penalty", "storage", "special")}, sort_keys=True),
                 meta.get("exc") is None)
        ck.cov["traces_validated_against_impl"] += 1
        for e in t["events"]:
            if e["when"]:
                ck.clause(e["c"], e["c"] not in names)
        for c in sorted(names):
            ck.violation(c, dict({k: meta.get(k) for k in ("solver", "datafit", "penalty", "storage", "special", "touched", "exc")},
                                 clause=c, level="solve"),
                         dict(kind="solve_purity", replay_module="harness.checks.purity", property="C18", clause=c,
                              comp=[meta["solver"], meta["datafit"], meta["penalty"], meta.get("special")], storage=meta["storage"],
                              seed=meta["seed"]))
    ck.cov["binding"].append(dict(check="solver-level purity: same solver object solves twice, all user arrays "
                                        "byte-compared, second result against a fresh solver", runs=len(res)))
    otraces = [t["object_trace"] for t in res if t.get("object_trace")]
    if otraces:
        try:
            verdicts, r = judge_object_traces(otraces)
        except tlc.TLCError as e:
            ck.machinery(str(e)[:2000])
            return
        ck.add_tlc(r, name="SolverObjectTrace (recorded solve sequences of one solver object against SolverObject.tla)",
                   kind="trace validation")
        by_id = {t["id"]: t for t in res}
        for ot in otraces:
            ok, reached, n = verdicts[ot["id"]]
            ck.cov["traces_validated_against_impl"] += 1
            ck.clause("solver_object_trace", ok)
            if not ok:
                meta = by_id[ot["id"]]["meta"]
                ck.violation("solver_object_trace",
                             dict({k: meta.get(k) for k in ("solver", "datafit", "penalty", "storage", "special")},
                                  clause="solver_object_trace", rejected_at_line=reached, event=ot["events"][reached - 1]),
                             dict(kind="solve_purity", replay_module="harness.checks.purity", property="C18",
                                  clause="solver_object_trace", comp=[meta["solver"], meta["datafit"], meta["penalty"], meta.get("special")],
                                  storage=meta["storage"], seed=meta["seed"]))
        ck.cov["binding"].append(dict(check="recorded solve / refill / solve sequences accepted by SolverObjectTrace.tla "
                                            "(TLC reuses the actions of SolverObject.tla)", traces=len(otraces)))


def run(prop, tier, seed):
    ck = CK.Check(prop, tier, seed)
    ck.cov["rule"] = (
        "history = behaviour of specs/api/Purity.tla: up to MaxLen operations (fit, path, set_params, sklearn clone, "
        "copy.deepcopy, pickle round trip of the estimator, deepcopy of a bare datafit / penalty instance) over a pool "
        "of 9 estimators sharing datafit/penalty classes, on float64 / float32 / CSC data, ending with a probe fit; "
        "every history runs in its own process. Reference = the same fit alone in a fresh process. Distinct = distinct "
        "histories; non-trivial = at least one fit after a different operation.")
    ck.cov["trusted_base"] = ["process isolation", "tobytes() equality", "TLC 1.8"]
    ck.assumptions = ["fits at tol 1e-10 compared at 1e-7 (float32 data: 1e-3)"]
    try:
        cfg = f"SPECIFICATION Spec\nCONSTANT MaxLen = {3 if tier == 'quick' else 4}\nCHECK_DEADLOCK FALSE\n"
        r = tlc.run("Purity", cfg_text=cfg, simulate=f"num={N_HIST[tier]}", depth=8, seed=seed, timeout=600)
        hists = r["printed"]
        ck.add_tlc(dict(distinct=len(hists), states=len(hists), wall_s=r["wall_s"]),
                   name="Purity -simulate (history generator)", kind="scenario generator")
    except tlc.TLCError as e:
        ck.machinery(str(e)[:2000])
        return ck.finish()
    hists = SENTINELS + hists
    seen, uniq = set(), []
    for h in hists:
        k = json.dumps(h, sort_keys=True)
        if k not in seen:
            seen.add(k)
            uniq.append(h)
    # fresh references: every (est, data, op in {fit, path}) that occurs, alone in its own process,
    # with the alpha it has at that point (set_alpha halves it)
    items = [(h, seed, i + 1) for i, h in enumerate(uniq)]
    out = pool.map_isolated("harness.checks.purity", "run_history", items, key=lambda it: it[2], chunk=1, timeout=400)
    results = {}
    for idx, (h, _s, hid) in enumerate(items):
        st, val = out.get(idx, ("died", None))
        if st == "err":
            ck.machinery(f"history driver failed on {h}: {val}")
        results[hid] = (st, val)
    if ck.machinery_errors:
        return ck.finish()
    need = {}
    for hid, (st, val) in results.items():
        if st != "ok":
            continue
        nset = {}
        for o in val["obs"]:
            if o["op"] == "set_alpha" and o["exc"] is None:
                nset[o["est"]] = nset.get(o["est"], 0) + 1
            if o["op"] in ("fit", "path"):
                key = (o["est"], o["data"], o["op"], nset.get(o["est"], 0))
                need[key] = None
    fresh_items = []
    for key in need:
        e, d, op, ns = key
        hh = dict(hist=[dict(op="set_alpha", est=e, data="f64")] * ns + [dict(op=op, est=e, data=d)])
        fresh_items.append((hh, seed, 900000 + len(fresh_items)))
    fout = pool.map_isolated("harness.checks.purity", "run_history", fresh_items, key=lambda it: it[2], chunk=1,
                             timeout=400)
    for (key, (idx, it)) in zip(list(need), enumerate(fresh_items)):
        st, val = fout.get(idx, ("died", None))
        need[key] = val["obs"][-1] if st == "ok" else dict(exc=(st, ""), result=None)
    facts = []
    for hid, (st, val) in results.items():
        h = uniq[hid - 1]
        f = rel.Facts(hid, dict(hist=h["hist"], status=st, seed=seed))
        f.flag("alive", st == "ok")
        if st == "ok":
            nset = {}
            warm = set()
            for o in val["obs"]:
                if o["op"] == "set_alpha" and o["exc"] is None:
                    nset[o["est"]] = nset.get(o["est"], 0) + 1
                f.flag("inputs_untouched", not o["touched"])
                if o["touched"]:
                    f.meta.setdefault("touched", []).append([o["k"], o["op"], o["est"], o["touched"]])
                if o["op"] in ("fit", "path"):
                    ref = need[(o["est"], o["data"], o["op"], nset.get(o["est"], 0))]
                    fresh_ok = ref.get("exc") is None and ref.get("result") is not None
                    # a fit on valid input succeeds whenever it succeeds in a fresh process
                    f.flag("refit_ok", o["exc"] is None, when=fresh_ok)
                    if o["exc"] is not None:
                        f.meta.setdefault("excs", []).append([o["k"], o["op"], o["est"], o["exc"]])
                    if fresh_ok and o["exc"] is None:
                        a, b = np.array(o["result"]), np.array(ref["result"])
                        if a.shape != b.shape:
                            f.flag("same_as_fresh", False)
                        else:
                            err = float(np.max(np.abs(a - b))) if a.size else 0.0
                            tol = 1e-3 if o["data"] == "f32" else 1e-7
                            f.le("same_as_fresh", err, tol * max(1.0, float(np.abs(b).max())))
        facts.append(f.trace())
    try:
        v = rel.judge(facts)
    except tlc.TLCError as e:
        ck.machinery(str(e)[:2000])
        return ck.finish()
    ck.add_verdicts(v)
    for t in facts:
        names = {c for c, _ in v.bad(t["id"])}
        meta = t["meta"]
        ops = [o["op"] for o in meta["hist"]]
        ck.count(json.dumps(meta["hist"], sort_keys=True), len(ops) >= 2)
        ck.cov["traces_validated_against_impl"] += 1
        for e in t["events"]:
            if e["when"]:
                ck.clause(e["c"], e["c"] not in names)
        for c in sorted(names):
            bad_ests = sorted({x[2] for x in meta.get("excs", [])} | {x[2] for x in meta.get("touched", [])})
            m2 = dict(clause=c, ops=ops, ests=[o["est"] for o in meta["hist"]], failing_ests=bad_ests,
                      exc_types=sorted({x[3][0] for x in meta.get("excs", [])}),
                      exc_msgs=sorted({x[3][1][:60] for x in meta.get("excs", [])}),
                      has_copy_before=any(o in ("clone", "deepcopy", "pickle", "copy_bare_datafit", "copy_bare_penalty")
                                          for o in ops[:-1]),
                      has_reweighted_twice=sum(1 for o in meta["hist"] if o["est"] == "Reweighted" and o["op"] == "fit") >= 2)
            ck.violation(c, m2, dict(kind="purity_history", replay_module="harness.checks.purity", property=prop,
                                     clause=c, history=dict(hist=meta["hist"]), seed=meta["seed"]))
        if len(ck.cov["samples"]) < 5:
            ck.sample(dict(history=meta["hist"], verdict=sorted(names), excs=meta.get("excs")))
    solve_purity_binding(ck, tier, seed)
    return ck.finish()


def _h(*ops):
    return dict(hist=[dict(op=o, est=e, data=d) for (o, e, d) in ops])


# permanent directed histories (DESIGN section 11: #24 copy-before-compile, #25 reweighted refit, float32 after float64)
SENTINELS = [
    _h(("copy_bare_datafit", "GLE_Huber_MCP", "f64"), ("fit", "GLE_Huber_MCP", "f64")),
    _h(("deepcopy", "GLE_Huber_MCP", "f64"), ("fit", "GLE_Huber_MCP", "f64")),
    _h(("clone", "LassoA", "f64"), ("fit", "LassoA", "f64")),
    _h(("pickle", "WeightedLasso", "f64"), ("fit", "WeightedLasso", "csc")),
    _h(("fit", "Reweighted", "f64"), ("fit", "Reweighted", "f64")),
    _h(("fit", "LassoA", "f64"), ("fit", "LassoB", "f32"), ("fit", "LassoA", "f64")),
    _h(("path", "LassoA", "f64"), ("fit", "LassoA", "f64")),
    _h(("fit", "WeightedLasso", "f64"), ("path", "WeightedLasso", "csc"), ("fit", "WeightedLasso", "f64")),
    _h(("fit", "GLE_WeightedQuadratic", "csc"), ("fit", "GLE_WeightedQuadratic", "f64")),
    _h(("fit", "GroupLasso", "f64"), ("set_alpha", "GroupLasso", "f64"), ("fit", "GroupLasso", "f64")),
]


def replay_solve(rp):
    comp = next(c for c in SOLVE_COMPS if list(c[:len(rp["comp"])]) == list(rp["comp"]))
    t = run_solve_purity(comp, rp["storage"], rp["seed"], 1)
    bad = {c for c, _ in rel.judge([t]).bad(1)}
    ot = t.get("object_trace")
    if ot:
        ok, reached, n = judge_object_traces([ot])[0][1]
        print("object trace:", json.dumps(ot["events"]), "accepted" if ok else f"rejected at line {reached}")
        if not ok:
            bad.add("solver_object_trace")
    print("failing clauses:", sorted(bad))
    if rp["clause"] in bad:
        print(f"REPRODUCED clause={rp['clause']} property={rp['property']}")
        return 1
    print("not reproduced on the current tree")
    return 0


def replay(rp):
    if rp.get("kind") == "solve_purity":
        return replay_solve(rp)
    out = pool.map_isolated("harness.checks.purity", "run_history", [(rp["history"], rp["seed"], 1)],
                            key=lambda it: 0, chunk=1, timeout=400)
    st, val = out[0]
    print("status:", st)
    bad = False
    if st == "ok":
        for o in val["obs"]:
            print(o["k"], o["op"], o["est"], o["data"], "exc:", o["exc"], "touched:", o["touched"])
            if rp["clause"] == "refit_ok" and o["op"] in ("fit", "path") and o["exc"] is not None:
                bad = True
            if rp["clause"] == "inputs_untouched" and o["touched"]:
                bad = True
    else:
        bad = rp["clause"] == "alive"
    if rp["clause"] == "same_as_fresh":
        print("same_as_fresh needs the fresh-process references: rerun `verif check C18`")
    if bad:
        print(f"REPRODUCED clause={rp['clause']} property={rp['property']}")
        return 1
    print("not reproduced on the current tree")
    return 0
