"""C20: compiled kernels stay inside their arrays.

  design   specs/api/Bounds.tla: index expressions as arithmetic on lengths; the `design` constants must
           satisfy InBounds, the `neg` configs (slicing conventions the code once had) must violate it
           (vacuity guard) and give the shapes of the sentinels.
  real     every scenario runs twice in separate worker processes: NUMBA_BOUNDSCHECK=1 (numba's own
           checker, set before numba is imported) and unchecked.
  verdict  RelTrace facts: no_index_error (the checked run raises nothing the unchecked run does not),
           same_result (final objective and, for equally long runs, the history agree).
"""
import json
import os

import numpy as np

from .. import check as CK
from .. import pool, rel, tlc
from . import solverprops

N = {"quick": 70, "thorough": 1500}
RANDOM_LIPSCHITZ = {("FISTA", "csc"), ("GroupBCD", "csc")}     # spectral_norm starts from numba's RNG


def run_one(sc, seed, tid, checked):
    """worker: returns a summary of one run (not a trace)."""
    import sys
    if checked:
        if os.environ.get("NUMBA_BOUNDSCHECK") != "1":
            assert "numba" not in sys.modules, "numba imported before NUMBA_BOUNDSCHECK could be set"
        os.environ["NUMBA_BOUNDSCHECK"] = "1"
    else:
        assert os.environ.get("NUMBA_BOUNDSCHECK") != "1" or "numba" not in sys.modules
        os.environ.pop("NUMBA_BOUNDSCHECK", None)
    from .. import scen
    t = scen.run(sc, seed, tid)
    last = t["events"][-1]
    out = dict(tid=tid, checked=checked, exc=t["meta"].get("exc"), n_events=len(t["events"]))
    if last["e"] == "return":
        out.update(crit=last["crit"], objs=last["objs"], nobj=last["nobj"], obj=last["obj"], viol=last["viol"])
    return out


def sentinel_scenarios():
    base = dict(storage="dense", strategy="subdiff", p0="2", max_iter=3, max_epochs=7, tol="1e-5",
                warm="none", weights="unit", data="tall", alpha="0.1", use_acc=True, greedy=False)
    return [
        dict(base, solver="GroupProxNewton", datafit="LogisticGroup", penalty="WeightedGroupL2",
             fit_intercept=False, sentinel="Bounds_neg_linesearch: penalty.value(w[:-1]) without intercept"),
        dict(base, solver="GroupProxNewton", datafit="LogisticGroup", penalty="WeightedGroupL2pos",
             fit_intercept=False, data="wide", sentinel="Bounds_neg_linesearch"),
        dict(base, solver="GroupBCD", datafit="LogisticGroup", penalty="WeightedGroupL2",
             fit_intercept=True, sentinel="group-wise constants of LogisticGroup"),
        dict(base, solver="GroupBCD", datafit="QuadraticGroup", penalty="WeightedL1GroupL2", strategy="fixpoint",
             fit_intercept=True, storage="csc", sentinel="feature weights indexed by group"),
        dict(base, solver="ProxNewton", datafit="Logistic", penalty="WeightedL1", weights="zeros",
             fit_intercept=True, storage="csc", sentinel="penalty.value(w) with the intercept"),
        dict(base, solver="MultiTaskBCD", datafit="QuadraticMultiTask", penalty="L2_1", fit_intercept=True,
             storage="csc", sentinel="intercept row"),
        # the dual design of the SVC is (n_features x n_samples): row / column counts are easy to swap
        dict(base, solver="FISTA", datafit="QuadraticSVC", penalty="IndicatorBox", fit_intercept=False,
             storage="csc", data="wide", max_iter=8, sentinel="power method on the transposed SVC design (wide)"),
        dict(base, solver="FISTA", datafit="QuadraticSVC", penalty="IndicatorBox", fit_intercept=False,
             storage="csc", data="corr98wide", max_iter=3, sentinel="same, other shape"),
        dict(base, solver="AndersonCD", datafit="QuadraticSVC", penalty="IndicatorBox", fit_intercept=False,
             storage="csc", data="wide", sentinel="SVC dual, wide"),
        dict(base, solver="AndersonCD", datafit="Logistic", penalty="L1", fit_intercept=True, strategy="fixpoint",
             storage="dense", data="big", p0="10", max_iter=8, max_epochs=25,
             sentinel="working set strictly inside the features, last features active (fixpoint scores)"),
        dict(base, solver="ProxNewton", datafit="Logistic", penalty="L1", fit_intercept=True, strategy="fixpoint",
             storage="csc", data="big", p0="10", max_iter=5, sentinel="same for ProxNewton / CSC"),
        # the inner stopping test (every 10 epochs) scores the working set with constants restricted to it
        dict(base, solver="MultiTaskBCD", datafit="QuadraticMultiTask", penalty="L2_1", fit_intercept=False,
             strategy="fixpoint", storage="dense", data="big", p0="2", max_iter=3, max_epochs=25, alpha="0.01",
             sentinel="fixpoint scores of a working set strictly inside the features, >= 11 inner epochs (multitask)"),
        dict(base, solver="GroupBCD", datafit="QuadraticGroup", penalty="WeightedGroupL2", fit_intercept=True,
             strategy="fixpoint", storage="csc", data="big", p0="2", max_iter=3, max_epochs=25, alpha="0.01",
             sentinel="same for GroupBCD"),
        dict(base, solver="AndersonCD", datafit="Quadratic", penalty="WeightedL1", fit_intercept=True,
             strategy="fixpoint", storage="csc", data="big", p0="2", max_iter=3, max_epochs=25, alpha="0.01",
             sentinel="same for AndersonCD"),
    ]


def run(prop, tier, seed):
    ck = CK.Check(prop, tier, seed)
    ck.cov["rule"] = (
        "scenario = behaviour of specs/api/SolverScenario.tla (all solvers, storages, intercept, budgets, "
        "warm starts, group layouts incl. permuted ones) + sentinels from the Bounds.tla counterexamples; "
        "each executed twice in fresh processes, with and without NUMBA_BOUNDSCHECK=1. Distinct = distinct "
        "scenarios; non-trivial = both runs finished and at least one epoch was executed.")
    ck.cov["trusted_base"] = ["numba's bounds checker (NUMBA_BOUNDSCHECK=1)", "TLC 1.8"]
    ck.assumptions = ["compositions whose Lipschitz constant comes from the randomly started power method "
                      "(FISTA / GroupBCD on CSC) are compared for errors only, not for equal results"]
    try:
        for cfg, expect in (("Bounds_design.cfg", False), ("Bounds_neg_linesearch.cfg", True),
                            ("Bounds_neg_grouplipschitz.cfg", True)):
            r = tlc.run("Bounds", cfg, timeout=600)
            ck.add_tlc(r, name=f"Bounds[{cfg}] |= InBounds", kind="design")
            if bool(r["violated"]) != expect:
                ck.machinery(f"Bounds model {cfg}: expected violated={expect}, got {r['violated']}")
        scs, r = solverprops.gen_scenarios("ALL", N[tier], seed + 20, density=1)
        ck.add_tlc(dict(distinct=len(scs), states=len(scs), wall_s=r["wall_s"]),
                   name="SolverScenario -simulate", kind="scenario generator")
    except tlc.TLCError as e:
        ck.machinery(str(e)[:2000])
        return ck.finish()
    scs = [dict(s, max_iter=min(s["max_iter"], 8), max_epochs=min(s["max_epochs"], 25)) for s in scs]
    scs = sentinel_scenarios() + scs
    items = []
    for i, sc in enumerate(scs):
        items.append((sc, seed, i + 1, True))
        items.append((sc, seed, i + 1, False))
    out = pool.map_isolated("harness.checks.boundsck", "run_one", items,
                            key=lambda it: (it[0]["solver"], it[0]["datafit"], it[0]["penalty"], it[3]),
                            chunk=8, timeout=240)
    facts = []
    for i, sc in enumerate(scs):
        a_st, a = out.get(2 * i, ("died", None))
        b_st, b = out.get(2 * i + 1, ("died", None))
        f = rel.Facts(i + 1, dict(sc, seed=seed, checked_status=a_st, unchecked_status=b_st))
        if a_st == "err" or b_st == "err":
            ck.machinery(f"driver failed on {sc}: {a if a_st == 'err' else b}")
            continue
        f.flag("alive", a_st == "ok" and b_st == "ok")
        if a_st == "ok" and b_st == "ok":
            ea, eb = a["exc"], b["exc"]
            f.meta["checked_exc"] = ea
            f.meta["unchecked_exc"] = eb
            idx_err = ea is not None and ("IndexError" in ea or "out of bounds" in ea)
            f.flag("no_index_error", not idx_err and (ea is None or eb is not None))
            comparable = ea is None and eb is None and "crit" in a and "crit" in b and \
                (sc["solver"], sc["storage"]) not in RANDOM_LIPSCHITZ
            f.flag("same_result", comparable and _same(a, b), when=comparable)
            f.meta["nontrivial"] = bool(ea is None and eb is None and a["n_events"] > 3)
        facts.append(f.trace())
    if ck.machinery_errors:
        return ck.finish()
    try:
        v = rel.judge(facts)
    except tlc.TLCError as e:
        ck.machinery(str(e)[:2000])
        return ck.finish()
    ck.add_verdicts(v)
    mine = {"alive", "no_index_error", "same_result"}
    for t in facts:
        names = {c for c, _ in v.bad(t["id"])}
        meta = t["meta"]
        ck.count(json.dumps({k: meta[k] for k in meta if k not in ("seed", "checked_exc", "unchecked_exc",
                                                                   "nontrivial", "checked_status",
                                                                   "unchecked_status")}, sort_keys=True),
                 bool(meta.get("nontrivial")))
        ck.cov["traces_validated_against_impl"] += 1
        for e in t["events"]:
            if e["when"]:
                ck.clause(e["c"], e["c"] not in names)
        for c in sorted(names & mine):
            ck.violation(c, dict(meta, clause=c), dict(kind="bounds_pair", replay_module="harness.checks.boundsck",
                                                       property=prop, clause=c,
                                                       scenario={k: meta[k] for k in meta if k in scs[0] or k in
                                                                 ("solver", "datafit", "penalty", "storage", "fit_intercept",
                                                                  "strategy", "p0", "max_iter", "max_epochs", "tol", "warm",
                                                                  "weights", "data", "alpha", "use_acc", "greedy")},
                                                       seed=seed))
        if len(ck.cov["samples"]) < 5:
            ck.sample(dict(scenario={k: meta[k] for k in ("solver", "datafit", "penalty", "storage",
                                                          "fit_intercept", "warm", "max_iter", "max_epochs")},
                           checked=meta.get("checked_exc"), unchecked=meta.get("unchecked_exc"),
                           verdict=sorted(names)))
    return ck.finish()


def _same(a, b):
    """The two runs are different compilations of the same kernels (bounds checking disables some vectorisation), so
    their floats may differ in the last bits; on data with exact ties this can move a stopping test by one
    iteration. Same result = same final objective, and the same history when the number of iterations is the same.
    (Memory read outside an array shows up as an IndexError of the checked run -- clause no_index_error -- or as a
    grossly different trajectory.)"""
    try:
        fa, fb = float(a["obj"]), float(b["obj"])
        if np.isfinite(fa) != np.isfinite(fb):
            return False
        if np.isfinite(fa) and abs(fa - fb) > 1e-7 * max(1.0, abs(fa)) + 1e-10:
            return False
        if abs(a["nobj"] - b["nobj"]) > 1:
            return False
        if a["nobj"] == b["nobj"]:
            x = np.array(list(a["objs"]), dtype=float)
            y = np.array(list(b["objs"]), dtype=float)
            if x.shape != y.shape or not np.array_equal(np.isfinite(x), np.isfinite(y)):
                return False
            m = np.isfinite(x)
            return bool(np.allclose(x[m], y[m], rtol=1e-7, atol=1e-10))
        return True
    except Exception:  # noqa: BLE001
        return False


def replay(rp):
    sc = rp["scenario"]
    items = [(sc, rp["seed"], 1, True), (sc, rp["seed"], 1, False)]
    out = pool.map_isolated("harness.checks.boundsck", "run_one", items, key=lambda it: it[3], timeout=240)
    print("checked:", out.get(0))
    print("unchecked:", out.get(1))
    a_st, a = out.get(0, ("died", None))
    b_st, b = out.get(1, ("died", None))
    bad = False
    if rp["clause"] == "alive":
        bad = not (a_st == "ok" and b_st == "ok")
    elif a_st == "ok" and b_st == "ok":
        if rp["clause"] == "no_index_error":
            ea, eb = a["exc"], b["exc"]
            bad = (ea is not None and ("IndexError" in ea or "out of bounds" in ea)) or (ea is not None and eb is None)
        else:
            bad = a["exc"] is None and b["exc"] is None and not _same(a, b)
    if bad:
        print(f"REPRODUCED clause={rp['clause']} property={rp['property']}")
        return 1
    print("not reproduced on the current tree")
    return 0
