"""C06 / C09: datafit vectors. Exact lattice vectors judged by TLC against the documented losses
(specs/math/Datafit.tla via specs/trace/DataVec.tla) + accessor/storage agreement facts (RelTrace)."""
import itertools
import json
import math
import os
import tempfile
from fractions import Fraction as F

import numpy as np
from scipy import sparse

from .. import rel, tlc
from .penvec import q, snap

LN2 = math.log(2.0)
EXPK = ("Logistic", "Poisson", "Gamma")


def lattice(kind, rng, nper):
    """-> list of (y, z, sw, delta) as Fractions (z = k for ln2 kinds)."""
    out = []
    n = 3
    for _ in range(nper):
        sw = [F(1)] * n
        delta = F(1)
        if kind in ("Quadratic", "WeightedQuadratic"):
            y = [F(int(v)) for v in rng.integers(-2, 3, n)]
            z = [F(int(v), 2) for v in rng.integers(-5, 6, n)]
            if kind == "WeightedQuadratic":
                sw = [F(int(v)) for v in rng.integers(0, 4, n)]
                if sum(sw) == 0:
                    sw[0] = F(2)
        elif kind == "Huber":
            delta = [F(1), F(3, 2)][int(rng.integers(2))]
            y = [F(int(v)) for v in rng.integers(-2, 3, n)]
            # residuals strictly inside, on the kink, and beyond
            r = [[F(0), F(1, 2), -delta, delta, delta + F(1, 2), -delta - 1, F(-1, 4)][int(v)]
                 for v in rng.integers(0, 7, n)]
            z = [yy - rr for yy, rr in zip(y, r)]
        elif kind == "Logistic":
            y = [F(int(v)) for v in rng.choice([-1, 1], n)]
            z = [F(int(v)) for v in rng.integers(-3, 4, n)]
        elif kind == "Poisson":
            y = [F(int(v)) for v in rng.choice([0, 1, 2, 5], n)]
            z = [F(int(v)) for v in rng.integers(-3, 4, n)]
        elif kind == "Gamma":
            y = [[F(1, 2), F(1), F(3)][int(v)] for v in rng.integers(0, 3, n)]
            z = [F(int(v)) for v in rng.integers(-3, 4, n)]
        out.append((y, z, sw, delta))
    return out


def desc_of(kind, sw, delta):
    if kind == "WeightedQuadratic":
        return {"kind": kind, "sample_weights": [float(s) for s in sw]}
    if kind == "Huber":
        return {"kind": kind, "delta": float(delta)}
    return {"kind": kind}


def vectors_for(kind, seed, nper):
    """worker: evaluate compiled datafit accessors on the lattice."""
    from .. import skl
    rng = np.random.default_rng([seed, sum(map(ord, kind))])
    out = []
    for (y, z, sw, delta) in lattice(kind, rng, nper):
        df = skl.datafit(desc_of(kind, sw, delta))
        n = len(y)
        yf = np.array([float(v) for v in y])
        zf = np.array([float(v) * (LN2 if kind in EXPK else 1.0) for v in z])
        base = dict(kind=kind, y=[q(v) for v in y], z=[q(v) for v in z], sw=[q(v) for v in sw],
                    delta=q(delta), i=1, col=[[0, 1]] * n)
        I = np.asfortranarray(np.eye(n))
        try:
            df.initialize(I, yf)
        except Exception:  # noqa: BLE001
            pass

        def rec(op, val, **kw):
            try:
                o = snap(val() if callable(val) else val)
            except Exception as e:  # noqa: BLE001
                o = {"k": "exc", "v": [0, 1], "raw": type(e).__name__ + ": " + str(e)[:80]}
            out.append(dict(base, op=op, out=o, **kw))
        w0 = np.zeros(n)
        for i in range(n):
            if hasattr(df, "raw_grad"):
                rec("raw_grad", lambda: df.raw_grad(yf, zf)[i], i=i + 1, via="raw_grad")
            if hasattr(df, "gradient_scalar"):
                rec("raw_grad", lambda: df.gradient_scalar(I, yf, w0, zf, i), i=i + 1,
                    via="gradient_scalar(X=I)")
            if hasattr(df, "raw_hessian"):
                rec("raw_hess", lambda: df.raw_hessian(yf, zf)[i], i=i + 1)
        if kind in ("Quadratic", "WeightedQuadratic", "Huber"):
            rec("value", lambda: df.value(yf, w0, zf))
        if hasattr(df, "intercept_update_step"):
            rec("icpt", lambda: df.intercept_update_step(yf, zf))
        # coordinate Lipschitz constant of a column with small integer entries
        if hasattr(df, "get_lipschitz") and kind != "Gamma":
            col = [F(int(v)) for v in rng.integers(-2, 3, n)]
            X = np.asfortranarray(np.column_stack([np.ones(n) * 7.0, [float(c) for c in col]]))
            rec("lips", lambda: df.get_lipschitz(X, yf)[1], col=[q(c) for c in col], via="dense")
            Xs = sparse.csc_matrix(X)
            rec("lips", lambda: df.get_lipschitz_sparse(Xs.data, Xs.indptr, Xs.indices, yf)[1],
                col=[q(c) for c in col], via="csc")
    return out


KINDS = ["Quadratic", "WeightedQuadratic", "Huber", "Logistic", "Poisson", "Gamma"]


def judge(vectors, parallel=6, batch=1500):
    os.makedirs(tlc.WORK, exist_ok=True)
    jobs, files = [], []
    for b in range(0, len(vectors), batch):
        chunk = vectors[b:b + batch]
        fd, path = tempfile.mkstemp(prefix="dvec_", suffix=".json", dir=tlc.WORK)
        enc = []
        for v in chunk:
            v2 = {k: x for k, x in v.items() if k != "via"}
            o = dict(v2["out"])
            o.pop("raw", None)
            v2["out"] = o
            enc.append(v2)
        with os.fdopen(fd, "w") as f:
            json.dump({"vectors": enc}, f)
        files.append(path)
        jobs.append(dict(spec="DataVec", cfg_text="SPECIFICATION Spec\nCHECK_DEADLOCK FALSE\n",
                         env={"TRACE_FILE": path}, timeout=1800, tag="DataVec"))
    res = tlc.run_many(jobs, parallel=parallel)
    verdict = {}
    st = dict(distinct=0, states=0, wall_s=0.0)
    for r, path in zip(res, files):
        st["distinct"] += r["distinct"]
        st["states"] += r["states"]
        st["wall_s"] += r["wall_s"]
        for pr in r["printed"]:
            if isinstance(pr, dict) and pr.get("v") == 2:
                verdict[pr["id"]] = sorted(pr["bad"])
        os.unlink(path)
    for v in vectors:
        if v["id"] not in verdict:
            raise tlc.TLCError(f"no verdict for vector {v['id']}")
    return verdict, st


# ------------------------------------------------------------------ accessor / storage facts
def accessor_facts(kind, seed, tid0, nrep):
    """worker: every derivative accessor == X^T raw_grad(oracle), dense == CSC, value == oracle."""
    from .. import skl
    from ..oracle import datafits as OD
    from .. import gen
    rng = np.random.default_rng([seed, 77, sum(map(ord, kind))])
    traces = []
    tid = tid0
    for rep in range(nrep):
        n, p = int(rng.integers(4, 8)), int(rng.integers(2, 5))
        X = np.asfortranarray(np.round(rng.standard_normal((n, p)) * 2) / 2 * (rng.random((n, p)) < 0.7))
        if rep % 4 == 0:
            X[:, 0] = 0.0                     # an all-zero column
        w = np.round(rng.standard_normal(p) * 2) / 4
        z = X @ w + 0.25
        T = 1
        if kind in ("Logistic", "LogisticGroup", "QuadraticSVC"):
            y = rng.choice([-1.0, 1.0], n)
        elif kind == "Poisson":
            y = rng.poisson(1.5, n).astype(float)
        elif kind == "Gamma":
            y = rng.uniform(0.5, 3.0, n)
        elif kind in ("Cox", "CoxEfron"):
            tm = rng.integers(1, 4, n).astype(float)           # many ties
            s = (rng.random(n) < 0.7).astype(float)
            if s.sum() == 0:
                s[0] = 1.0
            y = np.column_stack([tm, s])
        elif kind == "QuadraticMultiTask":
            T = 2
            y = np.round(rng.standard_normal((n, T)) * 2) / 2
            w = np.round(rng.standard_normal((p, T)) * 2) / 4
            z = X @ w + 0.25
        else:
            y = np.round(rng.standard_normal(n) * 2) / 2
        dd = {"kind": kind}
        if kind == "WeightedQuadratic":
            sw = rng.integers(0, 4, n).astype(float)
            if sw.sum() == 0:
                sw[0] = 1.0
            dd["sample_weights"] = sw.tolist()
        if kind == "Huber":
            dd["delta"] = 0.75
        if kind == "CoxEfron":
            dd = {"kind": "Cox", "use_efron": True}
        if kind == "Cox":
            dd = {"kind": "Cox", "use_efron": False}
        if kind in ("QuadraticGroup", "LogisticGroup"):
            ptr, idx = gen.groups_random(rng, p, 3, permuted=(rep % 2 == 1))
            dd.update(grp_ptr=ptr, grp_indices=idx)
        if kind == "Pinball":
            dd["quantile_level"] = 0.3
        tid += 1
        f = rel.Facts(tid, dict(datafit=kind, n=n, p=p, rep=rep))
        df = skl.datafit(dd)
        Xs = sparse.csc_matrix(X)
        # shuffle the order of the stored entries inside each column (legal CSC, unsorted indices)
        bund = (Xs.data, Xs.indptr, Xs.indices)
        try:
            if hasattr(df, "initialize"):
                df.initialize(X, y)
        except Exception as e:  # noqa: BLE001
            f.meta["init_exc"] = type(e).__name__
        rg = OD.raw_grad(dd, y, z) if kind not in ("Pinball",) else None
        scale = 1.0

        def close(c, got, ref, tol=1e-10):
            got = np.asarray(got, dtype=float)
            ref = np.asarray(ref, dtype=float)
            if got.shape != ref.shape:
                f.flag(c, False)
                return
            err = float(np.max(np.abs(got - ref))) if ref.size else 0.0
            if not np.isfinite(err):
                err = float("inf")
            f.le(c, err, tol * max(1.0, float(np.max(np.abs(ref))) if ref.size else 1.0))
        # value == documented loss
        try:
            val = df.value(y, w, z)
            close("value_eq", val, OD.loss(dd, y, z, w=w))
        except Exception as e:  # noqa: BLE001
            f.meta["value_exc"] = type(e).__name__
            f.flag("value_eq", False)
        if rg is not None:
            gfull = X.T @ rg
            if kind == "QuadraticSVC":
                gfull = gfull - 1.0
            if hasattr(df, "raw_grad"):
                close("grad_eq", df.raw_grad(y, z), rg)
            if hasattr(df, "gradient"):
                close("grad_eq", df.gradient(X, y, z), gfull)
            if hasattr(df, "gradient_scalar"):
                close("grad_eq", [df.gradient_scalar(X, y, w, z, j) for j in range(p)], gfull)
            if hasattr(df, "gradient_j"):
                close("grad_eq", [df.gradient_j(X, y, w, z, j) for j in range(p)], gfull)
            if hasattr(df, "gradient_g"):
                gg = np.concatenate([df.gradient_g(X, y, w, z, g) for g in range(len(dd["grp_ptr"]) - 1)])
                close("grad_eq", gg, gfull[np.array(dd["grp_indices"])])
            # CSC accessors: same numbers as the dense ones
            try:
                if hasattr(df, "initialize_sparse"):
                    df.initialize_sparse(*bund, y)
                if hasattr(df, "full_grad_sparse"):
                    close("sparse_eq", df.full_grad_sparse(*bund, y, z), gfull)
                if hasattr(df, "gradient_sparse"):
                    close("sparse_eq", df.gradient_sparse(*bund, y, z), gfull)
                if hasattr(df, "gradient_scalar_sparse"):
                    if kind in ("QuadraticGroup",):
                        vals = [df.gradient_scalar_sparse(*bund, y, w, z, j) for j in range(p)]
                    else:
                        vals = [df.gradient_scalar_sparse(*bund, y, z, j) for j in range(p)]
                    close("sparse_eq", vals, gfull)
                if hasattr(df, "gradient_j_sparse"):
                    close("sparse_eq", [df.gradient_j_sparse(*bund, y, z, j) for j in range(p)], gfull)
                if hasattr(df, "gradient_g_sparse"):
                    gg = np.concatenate([df.gradient_g_sparse(*bund, y, w, z, g)
                                         for g in range(len(dd["grp_ptr"]) - 1)])
                    close("sparse_eq", gg, gfull[np.array(dd["grp_indices"])])
            except Exception as e:  # noqa: BLE001
                f.meta["sparse_exc"] = type(e).__name__ + ": " + str(e)[:100]
                f.flag("sparse_eq", False)
            # diagonal Hessian accessor: equals, or (Cox, SqrtQuadratic: documented bound) dominates
            if hasattr(df, "raw_hessian"):
                h = np.asarray(df.raw_hessian(y, z), dtype=float)
                hd = OD.raw_hess_diag(dd, y, z)
                if kind in ("Cox", "CoxEfron", "SqrtQuadratic"):
                    H = OD.full_hessian_z(dd, y, z)
                    for _ in range(12):
                        v = rng.integers(-2, 3, n).astype(float)
                        f.le("hess_dominates", float(v @ H @ v), float((h * v * v).sum()) + 1e-7 * max(1.0, float(np.abs(H).max())) * float(v @ v + 1))
                elif hd is not None:
                    close("hess_eq", h, hd)
        traces.append(f.trace())
    return traces


FACT_KINDS = ["Quadratic", "WeightedQuadratic", "Logistic", "QuadraticSVC", "Huber", "Poisson", "Gamma",
              "Cox", "CoxEfron", "QuadraticGroup", "LogisticGroup", "QuadraticMultiTask"]


# ------------------------------------------------------------------ C09: block / global constants
def lipschitz_facts(kind, seed, tid0, nrep):
    """worker: group-wise and global Lipschitz constants against the curvature they must bound."""
    from .. import skl, gen
    from ..oracle import datafits as OD
    rng = np.random.default_rng([seed, 99, sum(map(ord, kind))])
    traces = []
    tid = tid0
    for rep in range(nrep):
        n, p = int(rng.integers(4, 10)), int(rng.integers(2, 9))
        X = np.asfortranarray(np.round(rng.standard_normal((n, p)) * 2) / 2 * (rng.random((n, p)) < 0.8))
        if rep % 5 == 0:
            X[:, int(rng.integers(p))] = 0.0        # an all-zero column anywhere (inside a group, between others)
        if rep % 5 == 1 and p > 1:
            X[:, 1] = X[:, 0]                   # rank deficient
        if rep % 5 == 2:
            X = X * np.array([1e3] + [1.0] * (p - 1))
        if rep % 5 == 3:
            X = np.asfortranarray(X)
            X[0, :] -= X.sum(axis=0)            # every column sums EXACTLY to zero (contrast coding; dyadic entries)
        dd = {"kind": kind}
        sw = None
        if kind in ("Logistic", "LogisticGroup", "QuadraticSVC"):
            y = rng.choice([-1.0, 1.0], n)
        elif kind in ("Cox", "CoxEfron"):
            tm = rng.integers(1, 4, n).astype(float)
            s = (rng.random(n) < 0.7).astype(float)
            s[0] = 1.0
            y = np.column_stack([tm, s])
            dd = {"kind": "Cox", "use_efron": kind == "CoxEfron"}
        elif kind == "QuadraticMultiTask":
            y = np.round(rng.standard_normal((n, 2)) * 2) / 2
        else:
            y = np.round(rng.standard_normal(n) * 2) / 2
        if kind == "WeightedQuadratic":
            sw = rng.integers(0, 4, n).astype(float)
            if sw.sum() == 0:
                sw[0] = 1.0
            dd["sample_weights"] = sw.tolist()
        if kind == "Huber":
            dd["delta"] = 0.75
        grs = None
        if kind in ("QuadraticGroup", "LogisticGroup"):
            ptr, idx = gen.groups_random(rng, p, 3, permuted=(rep % 2 == 1))
            dd.update(grp_ptr=ptr, grp_indices=idx)
            grs = [idx[ptr[g]:ptr[g + 1]] for g in range(len(ptr) - 1)]
        Xo = X
        if kind == "QuadraticSVC":
            Xo = np.asfortranarray((X * y[:, None]).T)
        tid += 1
        f = rel.Facts(tid, dict(datafit=kind, n=n, p=p, rep=rep))
        df = skl.datafit(dd)
        Xs = sparse.csc_matrix(Xo)
        bund = (Xs.data, Xs.indptr, Xs.indices)
        try:
            if hasattr(df, "initialize"):
                df.initialize(Xo, y)
        except Exception:  # noqa: BLE001
            pass
        # the constant matrix M with Hessian <= X^T M X for all z (documented curvature)
        nn = Xo.shape[0]
        if kind in ("Quadratic", "Huber", "QuadraticGroup", "QuadraticMultiTask"):
            Mdiag = np.ones(nn) / nn
        elif kind == "WeightedQuadratic":
            Mdiag = sw / sw.sum()
        elif kind in ("Logistic", "LogisticGroup"):
            Mdiag = np.ones(nn) / (4 * nn)
        elif kind == "QuadraticSVC":
            Mdiag = np.ones(nn)
        else:
            Mdiag = None

        def lam(A):
            if A.size == 0:
                return 0.0
            return float(np.linalg.eigvalsh((A + A.T) / 2)[-1])

        def gap_ok(A):
            """the power method (100 iterations) is accurate to 1e-3 only with a spectral gap"""
            if A.size == 0:
                return True
            ev = np.linalg.eigvalsh((A + A.T) / 2)
            if len(ev) < 2 or ev[-1] <= 0:
                return True
            r = max(ev[-2], 0.0) / ev[-1]
            return bool(r <= 0.9 or r >= 1 - 1e-12)
        if grs is not None:
            try:
                Ld = np.asarray(df.get_lipschitz(Xo, y), dtype=float)
            except Exception as e:  # noqa: BLE001
                Ld = None
                f.meta["exc"] = type(e).__name__
                f.flag("block_exact", False)
            if Ld is not None:
                f.flag("block_shape", Ld.shape == (len(grs),))
                if Ld.shape == (len(grs),):
                    for g, idx in enumerate(grs):
                        true = lam(Xo[:, idx].T @ (Mdiag[:, None] * Xo[:, idx]))
                        f.approx("block_exact", Ld[g], true, 1e-12, 1e-9)
            if hasattr(df, "get_lipschitz_sparse") and kind == "QuadraticGroup":
                # (the power method starts from a random vector drawn by numba: an unlucky start is power-method
                #  accuracy, not a defect -- the best of three calls is judged, and none may exceed the true value)
                Ls = np.max([np.asarray(df.get_lipschitz_sparse(*bund, y), dtype=float) for _ in range(3)], axis=0)
                for g, idx in enumerate(grs):
                    G = Xo[:, idx].T @ (Mdiag[:, None] * Xo[:, idx])
                    true = lam(G)
                    f.le("sparse_not_above", Ls[g], true * (1 + 1e-9) + 1e-12)
                    f.le("sparse_accuracy", true * (1 - 1e-3) - 1e-12, Ls[g], when=gap_ok(G))
        if hasattr(df, "get_global_lipschitz"):
            try:
                Lg = float(df.get_global_lipschitz(Xo, y))
                Lgs = max(float(df.get_global_lipschitz_sparse(*bund, y)) for _ in range(3)) if hasattr(
                    df, "get_global_lipschitz_sparse") else None
            except Exception as e:  # noqa: BLE001
                Lg, Lgs = float("nan"), None
                f.meta["exc"] = type(e).__name__
            if Mdiag is not None:
                G = Xo.T @ (Mdiag[:, None] * Xo)
                true = lam(G)
                f.approx("global_exact", Lg, true, 1e-12, 1e-9)
                if Lgs is not None:
                    f.le("sparse_not_above", Lgs, true * (1 + 1e-9) + 1e-12)
                    f.le("sparse_accuracy", true * (1 - 1e-3) - 1e-12, Lgs, when=gap_ok(G))
            else:
                # Cox: a bound -- must dominate the curvature at every point tried
                for k in range(6):
                    z = (rng.standard_normal(nn) * (k > 0)) if k < 5 else np.zeros(nn)
                    H = OD.full_hessian_z(dd, y, z)
                    f.le("global_bound", lam(Xo.T @ H @ Xo) * (1 - 1e-6), Lg)
                if Lgs is not None:
                    f.le("sparse_not_above", Lgs, Lg * (1 + 1e-9) + 1e-12)
                    f.le("sparse_accuracy", Lg * (1 - 1e-3) - 1e-12, Lgs, when=gap_ok(Xo.T @ Xo))
        # coordinate constants dense vs sparse
        if hasattr(df, "get_lipschitz") and grs is None:
            try:
                a = np.asarray(df.get_lipschitz(Xo, y), dtype=float)
                b = np.asarray(df.get_lipschitz_sparse(*bund, y), dtype=float)
                err = float(np.max(np.abs(a - b))) if a.shape == b.shape else float("inf")
                f.le("sparse_eq", err, 1e-10 * max(1.0, float(np.max(np.abs(a)))))
                if Mdiag is not None:
                    true = (Mdiag[:, None] * Xo ** 2).sum(axis=0)
                    for j in range(len(true)):
                        f.approx("coord_exact", a[j], true[j], 1e-12, 1e-9)
            except Exception as e:  # noqa: BLE001
                f.meta["exc"] = type(e).__name__ + ": " + str(e)[:100]
                f.flag("sparse_eq", False)
        traces.append(f.trace())
    return traces


LIP_KINDS = ["Quadratic", "WeightedQuadratic", "Logistic", "QuadraticSVC", "Huber", "Cox", "CoxEfron",
             "QuadraticGroup", "LogisticGroup", "QuadraticMultiTask"]
