"""C17, last sentence: "an estimator's n_iter_ is that number of iterations".

Each estimator is fitted under the AutoTracer (the solve inside fit() is observed like any other: every outer
iteration emits a `record` event and SolverTrace checks hist_len / hist_value on it); RelTrace then judges
  n_iter_eq    est.n_iter_ == number of outer iterations the observed solve performed (its `record` events)
  n_iter_hist  ... == length of the objective history the solver returned
for budgets that are exhausted (max_iter 1, 3) and for runs that converge early (loose tolerance)."""
import json
import warnings

import numpy as np

from .. import gen, monitor, rel, tlc

ESTS = ["Lasso", "WeightedLasso", "ElasticNet", "MCPRegression", "SparseLogisticRegression", "LinearSVC",
        "GroupLasso", "MultiTaskLasso", "GLE_FISTA", "GLE_ProxNewton"]      # (CoxEstimator documents none)
BUDGETS = [(1, 1e-12), (3, 1e-12), (50, 1e-3), (50, 1e-8)]


def run_one(est_name, max_iter, tol, storage, seed, tid):
    import skglm
    from scipy import sparse
    from .. import skl  # noqa: F401  (installs the BaseSolver.solve observation wrapper)
    from .. import tracer as TR
    rng = gen.rng_for(seed, "niter", est_name, max_iter, tol, storage)
    n, p = 40, 15
    X = gen.design(rng, n, p, rho=0.5)
    if est_name in ("SparseLogisticRegression", "LinearSVC"):
        y = gen.target(rng, X, "clf", offset=0.3)
        amax = float(np.max(np.abs(X.T @ y))) / (2 * n)
    elif est_name == "MultiTaskLasso":
        y = gen.target(rng, X, "reg", n_tasks=2, offset=1.0)
        amax = float(np.max(np.linalg.norm(X.T @ (y - y.mean(0)), axis=1))) / n
    elif est_name == "CoxEstimator":
        y = gen.target(rng, X, "surv")
        amax = 0.3
    else:
        y = gen.target(rng, X, "reg", offset=1.0)
        amax = float(np.max(np.abs(X.T @ (y - y.mean())))) / n
    al = 0.1 * amax
    kw = dict(tol=tol, max_iter=max_iter)
    if est_name == "Lasso":
        est = skglm.Lasso(alpha=al, **kw)
    elif est_name == "WeightedLasso":
        est = skglm.WeightedLasso(alpha=al, weights=rng.uniform(0.5, 2, p), **kw)
    elif est_name == "ElasticNet":
        est = skglm.ElasticNet(alpha=al, l1_ratio=0.5, **kw)
    elif est_name == "MCPRegression":
        est = skglm.MCPRegression(alpha=al, gamma=3.0, **kw)
    elif est_name == "SparseLogisticRegression":
        est = skglm.SparseLogisticRegression(alpha=al, **kw)
    elif est_name == "LinearSVC":
        est = skglm.LinearSVC(C=0.5, **kw)
    elif est_name == "GroupLasso":
        est = skglm.GroupLasso(groups=3, alpha=al, **kw)
    elif est_name == "MultiTaskLasso":
        est = skglm.MultiTaskLasso(alpha=al, **kw)
    elif est_name == "CoxEstimator":
        est = skglm.CoxEstimator(alpha=0.05, **kw)
    else:
        from skglm import datafits as D, penalties as P, solvers as S
        if est_name == "GLE_FISTA":
            est = skglm.GeneralizedLinearEstimator(D.Quadratic(), P.L1(al), S.FISTA(max_iter=max_iter * 20, tol=tol))
        else:
            yy = np.sign(y - np.median(y))
            yy[yy == 0] = 1.0
            y = yy
            est = skglm.GeneralizedLinearEstimator(D.Logistic(), P.L1(0.05 * float(np.max(np.abs(X.T @ y))) / (2 * n)),
                                                   S.ProxNewton(max_iter=max_iter, tol=tol, fit_intercept=True))
    Xs = sparse.csc_matrix(X) if storage == "csc" and est_name not in ("GroupLasso", "CoxEstimator") else X
    meta = dict(est=est_name, max_iter=max_iter, tol=tol, storage=storage, seed=seed)
    f = rel.Facts(tid, meta)
    auto = TR.AutoTracer(meta=meta).install()
    exc = None
    try:
        with warnings.catch_warnings():
            warnings.simplefilter("ignore")
            est.fit(Xs, y)
    except Exception as e:  # noqa: BLE001
        exc = type(e).__name__ + ": " + str(e)[:200]
    finally:
        auto.remove()
    f.meta["exc"] = exc
    f.flag("n_iter_fit_runs", exc is None)
    straces = []
    if exc is None and auto.traces:
        t = auto.traces[-1]
        n_rec = sum(1 for e in t["events"] if e["e"] == "record")
        ret = [e for e in t["events"] if e["e"] == "return"]
        f.meta["n_iter_"] = int(est.n_iter_)
        f.meta["n_record"] = n_rec
        f.eq("n_iter_eq", float(est.n_iter_), float(n_rec))
        if ret:
            f.eq("n_iter_hist", float(est.n_iter_), float(ret[-1]["nobj"]))
        t["id"] = tid
        straces.append(t)
    else:
        f.flag("n_iter_observed", exc is not None or bool(auto.traces), when=exc is None)
    return f.trace(), straces


RESOLVE = [("LBFGS", "Logistic", "L2"), ("FISTA", "Quadratic", "L1"), ("GramCD", "None", "L1"),
           ("AndersonCD", "Quadratic", "L1"), ("ProxNewton", "Logistic", "L1"), ("GroupBCD", "QuadraticGroup", "WeightedGroupL2"),
           ("MultiTaskBCD", "QuadraticMultiTask", "L2_1"), ("PDCD_WS", "Pinball", "L1")]


def run_resolve(comp, seed, tid):
    """worker: ONE solver object solves two different problems in a row; the history returned by the second solve must
    describe the second solve only (its own outer iterations, its own objectives)."""
    from .. import skl  # noqa: F401
    from .. import tracer as TR
    s, d, pk = comp
    rng = gen.rng_for(seed, "resolve", comp)
    n, p = 30, 10
    meta = dict(solver=s, datafit=d, penalty=pk, seed=seed, via="same solver object, second solve")
    auto = TR.AutoTracer(meta=meta).install()
    exc = None
    try:
        kw = dict(tol=1e-12, max_iter=6)
        slv = skl.solver(s, **kw)
        for k in range(2):
            X = np.asfortranarray(rng.standard_normal((n, p)))
            if d == "Logistic":
                y = np.sign(rng.standard_normal(n))
            elif d == "QuadraticMultiTask":
                y = np.asfortranarray(rng.standard_normal((n, 2)))
            else:
                y = rng.standard_normal(n)
            dfd = None if d == "None" else ({"kind": d, "quantile_level": 0.4} if d == "Pinball" else {"kind": d})
            if d == "QuadraticGroup":
                dfd.update(grp_ptr=[0, 3, 6, 10], grp_indices=list(range(p)))
            pend = {"kind": pk, "alpha": 0.05}
            if pk == "L1":
                pend["positive"] = False
            if pk == "WeightedGroupL2":
                pend.update(weights=[1.0, 1.0, 1.0], grp_ptr=[0, 3, 6, 10], grp_indices=list(range(p)), positive=False)
            df = None if dfd is None else skl.datafit(dfd)
            pen = skl.penalty(pend)
            if df is not None and hasattr(df, "initialize") and s in ("ProxNewton", "FISTA", "LBFGS", "PDCD_WS"):
                df.initialize(X, y)
            with warnings.catch_warnings():
                warnings.simplefilter("ignore")
                slv.solve(X, y, df, pen)
    except Exception as e:  # noqa: BLE001
        exc = type(e).__name__ + ": " + str(e)[:200]
    finally:
        auto.remove()
    f = rel.Facts(tid, dict(meta, exc=exc))
    f.flag("resolve_runs", exc is None and len(auto.traces) == 2)
    out = []
    for k, t in enumerate(auto.traces):
        t["id"] = tid * 10 + k
        t["meta"] = dict(meta, step=k)
        out.append(t)
    return f.trace(), out


def run_binding(ck, pool, tier, seed):
    # ---- the same solver object used twice: diagnostics are per solve (design: specs/solvers/SolverObject.tla)
    from .purity import solver_object_design, solver_object_inductive
    try:
        solver_object_design(ck)
        if tier == "thorough":
            solver_object_inductive(ck)
    except tlc.TLCError as e:
        ck.machinery(str(e)[:2000])
        return
    ritems = [(c, seed, 71000 + i) for i, c in enumerate(RESOLVE)]
    rres, rerrs = pool.map_grouped("harness.checks.niter", "run_resolve", ritems, key=lambda it: it[0], chunk=1)
    for it, msg, tb in rerrs:
        ck.machinery(f"resolve driver failed on {it}: {msg}\n{tb}")
    if not rerrs:
        rtraces = [t for r in rres for t in r[1]]
        try:
            vr = monitor.validate(rtraces) if rtraces else None
            vf = rel.judge([r[0] for r in rres])
        except tlc.TLCError as e:
            ck.machinery(str(e)[:2000])
            return
        ck.add_verdicts(vf)
        for r in rres:
            bad = {c for c, _ in vf.bad(r[0]["id"])}
            ck.clause("resolve_runs", "resolve_runs" not in bad)
            if "resolve_runs" in bad:
                ck.machinery(f"resolve driver could not run {r[0]['meta']}")
        if vr is not None:
            ck.add_verdicts(vr)
            for t in rtraces:
                names = {c for c, _ in vr.bad(t["id"])} & {"hist_len", "hist_value", "hist_last", "hist_ret"}
                ck.cov["traces_validated_against_impl"] += 1
                for c in ("hist_len", "hist_value", "hist_last"):
                    ck.clause(c, c not in names)
                for c in sorted(names):
                    m = t["meta"]
                    ck.violation(c, dict(m, clause=c),
                                 dict(kind="n_iter", replay_module="harness.checks.niter", property="C17", clause=c,
                                      resolve=[m["solver"], m["datafit"], m["penalty"]], seed=m["seed"]))

    items = []
    tid = 70000
    stor = ("dense", "csc")
    for e in ESTS:
        for k, (mi, tol) in enumerate(BUDGETS):
            for st in (stor if tier == "thorough" else (stor[k % 2],)):
                tid += 1
                items.append((e, mi, tol, st, seed, tid))
    res, errs = pool.map_grouped("harness.checks.niter", "run_one", items, key=lambda it: it[0], chunk=8)
    for it, msg, tb in errs:
        ck.machinery(f"n_iter_ driver failed on {it}: {msg}\n{tb}")
    if errs:
        return
    facts = [r[0] for r in res]
    straces = [t for r in res for t in r[1]]
    try:
        v = rel.judge(facts)
        vs = monitor.validate(straces) if straces else None
    except tlc.TLCError as e:
        ck.machinery(str(e)[:2000])
        return
    ck.add_verdicts(v)
    mine = {"n_iter_eq", "n_iter_hist", "n_iter_fit_runs", "n_iter_observed"}
    for t in facts:
        names = {c for c, _ in v.bad(t["id"])}
        meta = t["meta"]
        ck.count("n_iter:" + json.dumps({k: meta[k] for k in ("est", "max_iter", "tol", "storage")}, sort_keys=True),
                 meta.get("exc") is None)
        ck.cov["traces_validated_against_impl"] += 1
        for e in t["events"]:
            if e["when"]:
                ck.clause(e["c"], e["c"] not in names)
        for c in sorted(names & mine):
            m2 = dict({k: meta.get(k) for k in ("est", "max_iter", "tol", "storage", "seed", "n_iter_", "n_record")},
                      clause=c, exc=meta.get("exc"))
            ck.violation(c, m2, dict(kind="n_iter", replay_module="harness.checks.niter", property="C17", clause=c,
                                     args=[meta["est"], meta["max_iter"], meta["tol"], meta["storage"]],
                                     seed=meta["seed"]))
    # the solves inside fit() are held to the same history clauses as raw solves
    if vs is not None:
        ck.add_verdicts(vs)
        for t in straces:
            names = {c for c, _ in vs.bad(t["id"])} & {"hist_len", "hist_value", "hist_last", "hist_ret"}
            for c in ("hist_len", "hist_value", "hist_last"):
                ck.clause(c, c not in names)
            for c in sorted(names):
                m = t["meta"]
                ck.violation(c, dict(m, clause=c, via="estimator.fit"),
                             dict(kind="n_iter", replay_module="harness.checks.niter", property="C17", clause=c,
                                  args=[m["est"], m["max_iter"], m["tol"], m["storage"]], seed=m["seed"]))
    ck.cov["binding"].append(dict(check="estimator n_iter_ against the observed solve inside fit()", fits=len(facts)))


def replay(rp):
    if rp.get("resolve"):
        f, st = run_resolve(tuple(rp["resolve"]), rp["seed"], 1)
        bad = [c for t in st for c, _ in monitor.validate([t]).bad(t["id"])]
        print("resolve:", rp["resolve"], "verdict:", bad)
        if rp["clause"] in bad:
            print(f"REPRODUCED clause={rp['clause']} property={rp['property']}")
            return 1
        print("not reproduced on the current tree")
        return 0
    f, st = run_one(*rp["args"], rp["seed"], 1)
    v = rel.judge([f])
    bad = [c for c, _ in v.bad(1)]
    if st:
        bad += [c for c, _ in monitor.validate(st).bad(1)]
    print("args:", rp["args"], "meta:", f["meta"], "verdict:", bad)
    if rp["clause"] in bad:
        print(f"REPRODUCED clause={rp['clause']} property={rp['property']}")
        return 1
    print("not reproduced on the current tree")
    return 0
