"""Seeded numeric data for scenarios. Scenario STRUCTURE comes from TLC (specs/api/Scenario*.tla);
this module only instantiates numbers from (seed, scenario)."""
import numpy as np
from scipy import sparse


def rng_for(seed, *keys):
    import zlib
    h = zlib.crc32(repr(keys).encode()) & 0xFFFFFFFF
    return np.random.default_rng([int(seed) & 0xFFFFFFFF, h])


def design(rng, n, p, rho=0.0, density=1.0, scale_cols=False):
    """Gaussian design with AR(1)-like correlation rho between consecutive columns."""
    Z = rng.standard_normal((n, p))
    X = np.empty((n, p))
    X[:, 0] = Z[:, 0]
    c = np.sqrt(max(0.0, 1 - rho * rho))
    for j in range(1, p):
        X[:, j] = rho * X[:, j - 1] + c * Z[:, j]
    if density < 1.0:
        mask = rng.random((n, p)) < density
        X = X * mask
    if scale_cols:
        X = X * np.exp(rng.uniform(-1, 1, size=p))
    return np.asfortranarray(X)


def target(rng, X, kind="reg", nnz=3, snr=3.0, offset=0.0, n_tasks=1):
    n, p = X.shape
    nnz = min(nnz, p)
    if n_tasks > 1:
        W = np.zeros((p, n_tasks))
        supp = rng.choice(p, nnz, replace=False)
        W[supp] = rng.standard_normal((nnz, n_tasks)) * 2
        Y = X @ W + offset
        Y = Y + rng.standard_normal(Y.shape) * (np.std(Y) / snr + 1e-3)
        if offset:
            # tasks with DIFFERENT means: the first one exactly centred, the last one shifted the other way
            # (the other tasks all on one side of it, the side drawn at random)
            sgn = 1.0 if rng.random() < 0.5 else -1.0
            Y[:, 0] -= Y[:, 0].mean()
            for k_ in range(1, n_tasks):
                Y[:, k_] += sgn * (1.0 + k_) * abs(offset) - Y[:, k_].mean()
        return np.asfortranarray(Y)
    w = np.zeros(p)
    supp = rng.choice(p, nnz, replace=False)
    w[supp] = rng.standard_normal(nnz) * 2
    z = X @ w
    if kind == "reg":
        y = z + offset
        return y + rng.standard_normal(n) * (np.std(y) / snr + 1e-3)
    if kind == "clf":
        y = np.sign(z + offset + rng.standard_normal(n) * (np.std(z) / snr + 1e-3))
        y[y == 0] = 1.0
        if np.all(y == y[0]):
            y[: n // 2] = -y[0]
        return y
    if kind == "count":
        lam = np.exp(np.clip(z / (np.std(z) + 1e-9), -2, 2))
        return rng.poisson(lam).astype(float)
    if kind == "pos":
        return np.exp(np.clip(z / (np.std(z) + 1e-9), -2, 2)) * rng.uniform(0.5, 1.5, n)
    if kind == "surv":
        tm = np.exp(-np.clip(z / (np.std(z) + 1e-9), -2, 2)) * rng.exponential(1.0, n)
        tm = np.round(tm * 4) / 4 + 0.25  # ties
        s = (rng.random(n) < 0.7).astype(float)
        if s.sum() == 0:
            s[0] = 1.0
        return np.column_stack([tm, s])
    raise KeyError(kind)


def to_storage(X, storage):
    if storage == "dense":
        return np.asfortranarray(X)
    if storage == "dense_c":
        return np.ascontiguousarray(X)
    if storage == "csc":
        return sparse.csc_matrix(X)
    if storage == "csr":
        return sparse.csr_matrix(X)
    if storage == "csc_explicit":
        Xd = np.asarray(X, dtype=float)
        n, p_ = Xd.shape
        return sparse.csc_matrix((Xd.ravel(order="F").copy(), np.tile(np.arange(n, dtype=np.int32), p_),
                                  np.arange(0, n * p_ + 1, n, dtype=np.int32)), shape=(n, p_))
    raise KeyError(storage)


def groups_contiguous(p, sizes):
    ptr = np.concatenate([[0], np.cumsum(sizes)]).astype(np.int32)
    idx = np.arange(p, dtype=np.int32)
    return ptr.tolist(), idx.tolist()


def groups_random(rng, p, max_size=4, permuted=True):
    """Random group structure; with permuted=True the feature indices of a group are interleaved
    and listed in arbitrary order (grp_indices is then NOT the identity)."""
    sizes = []
    left = p
    while left > 0:
        k = int(min(left, rng.integers(1, max_size + 1)))
        sizes.append(k)
        left -= k
    ptr = np.concatenate([[0], np.cumsum(sizes)]).astype(np.int32)
    idx = rng.permutation(p).astype(np.int32) if permuted else np.arange(p, dtype=np.int32)
    return ptr.tolist(), idx.tolist()
