"""Float mirror of specs/math/Problem.tla: composed objective, first-order violation, tolerances.

A problem is a dict: X (dense float64 ndarray, n x p), y, datafit (descriptor), penalty (descriptor),
fit_intercept (bool). Coefficients are passed as the solver stores them: shape (p + fit_intercept,)
or (p + fit_intercept, T).
"""
import numpy as np
from . import datafits as D
from . import penalties as P

INF = float("inf")


def split(prob, w):
    p = prob["X"].shape[1]
    w = np.asarray(w, dtype=float)
    if prob["fit_intercept"]:
        return w[:p], w[p]
    return w[:p], (0.0 if w.ndim == 1 else np.zeros(w.shape[1]))


def predictor(prob, w):
    wv, b = split(prob, w)
    return prob["X"] @ wv + b


def objective(prob, w, z=None):
    """True objective: documented loss at z = Xw + b plus the documented penalty (intercept free)."""
    wv, b = split(prob, w)
    if z is None:
        z = prob["X"] @ wv + b
    return D.loss(prob["datafit"], prob["y"], z, w=wv) + P.value(prob["penalty"], wv)


def gradients(prob, w, z=None):
    wv, b = split(prob, w)
    if z is None:
        z = prob["X"] @ wv + b
    rg = D.raw_grad(prob["datafit"], prob["y"], z)
    g = prob["X"].T @ rg
    if prob["datafit"]["kind"] == "QuadraticSVC":
        g = g - 1.0
    gb = rg.sum(axis=0)
    return g, gb


def cd_lipschitz(prob, w=None, family="cd"):
    """Step constants of the fixed-point metric: documented coordinate curvature bounds."""
    X = prob["X"]
    if family == "pn":
        z = predictor(prob, w)
        h = D.raw_hess_diag(prob["datafit"], prob["y"], z)
        if h is None:
            return None
        return h @ (X ** 2)
    L = D.coord_lipschitz(prob["datafit"], X, prob["y"])
    return L


NULL_STEP = 1000.0


def violation(prob, w, strategy="subdiff", family="cd"):
    """max over blocks of the first-order violation, joined with |d/db| when an intercept is fitted.

    strategy "subdiff": distance of -grad to the regular subdifferential;
    strategy "fixpoint": prox-gradient residual with the documented step 1/L_j (scalar penalties).
    Returns (viol, per_block, |grad_b|).
    """
    wv, b = split(prob, w)
    g, gb = gradients(prob, w)
    pen = prob["penalty"]
    if strategy == "fixpoint" and pen["kind"] in P.PIECEWISE + P.SCALAR_OTHER and wv.ndim == 1:
        L = cd_lipschitz(prob, w, family)
        d = np.zeros(len(wv))
        sd = None
        for j in range(len(wv)):
            if L is None:
                if sd is None:
                    sd = P.subdiff_dist(pen, wv, g)
                d[j] = sd[j]
                continue
            # a null column has no curvature: the residual is taken with the large step the solvers document
            # for such columns (NULL_STEP); as the step grows it tends to the distance of w_j to argmin pen_j
            s = 1.0 / L[j] if L[j] != 0 else NULL_STEP
            us, _ = P.prox_scalar(pen, float(wv[j] - s * g[j]), s, j)
            d[j] = min(abs(wv[j] - u) for u in us)
    elif strategy == "fixpoint" and pen["kind"] in ("L2_1", "WeightedGroupL2", "WeightedL1GroupL2",
                                                     "BlockMCPenalty", "BlockSCAD", "L2_05"):
        d = _fixpoint_block(prob, wv, g)
    else:
        d = P.subdiff_dist(pen, wv, g)
    ib = float(np.max(np.abs(gb))) if prob["fit_intercept"] else 0.0
    v = max(float(np.max(d)) if len(d) else 0.0, ib)
    return v, d, ib


def _fixpoint_block(prob, wv, g):
    pen = prob["penalty"]
    X = prob["X"]
    n = X.shape[0]
    c = 4.0 if prob["datafit"]["kind"].startswith("Logistic") else 1.0
    if pen["kind"] in P.GROUP_BLOCK:
        grs = P.groups(pen)
        d = np.zeros(len(grs))
        for gi, idx in enumerate(grs):
            L = np.linalg.norm(X[:, idx], ord=2) ** 2 / (c * n)
            if L == 0:
                u = P.prox_block(pen, wv[idx] - g[idx] * NULL_STEP, NULL_STEP, gi)
                d[gi] = np.linalg.norm(wv[idx] - u)
                continue
            u = P.prox_block(pen, wv[idx] - g[idx] / L, 1.0 / L, gi)
            d[gi] = np.linalg.norm(wv[idx] - u)
        return d
    W = wv.reshape(len(wv), -1)
    G = g.reshape(len(wv), -1)
    d = np.zeros(len(W))
    for j in range(len(W)):
        L = (X[:, j] ** 2).sum() / n
        if L == 0:
            u = P.prox_block(pen, W[j] - G[j] * NULL_STEP, NULL_STEP, j)
            d[j] = np.linalg.norm(W[j] - u)
            continue
        u = P.prox_block(pen, W[j] - G[j] / L, 1.0 / L, j)
        d[j] = np.linalg.norm(W[j] - u)
    return d


def null_scale(prob):
    p = prob["X"].shape[1]
    y = np.asarray(prob["y"])
    T = () if (y.ndim == 1 or prob["datafit"]["kind"] == "Cox") else (y.shape[1],)
    w0 = np.zeros((p + int(prob["fit_intercept"]),) + T)
    try:
        g, gb = gradients(prob, w0)
        s = float(np.max(np.abs(g))) if g.size else 0.0
    except Exception:
        s = 1.0
    if not np.isfinite(s):
        s = 1.0
    return max(1.0, s)


# ---- tolerances of DESIGN 5.2 -------------------------------------------------------------
def vbound(tol, scale):
    return tol * (1 + 1e-6) + 1e-7 * scale


def approx_band(v, scale):
    """[lo, hi] such that a ~ v  <=>  lo <= a <= hi  ("~" of DESIGN 5.2)."""
    if not np.isfinite(v):
        return v, v
    # |a - v| <= 1e-9 scale + 1e-6 max(|a|,|v|)  is implied by / close to the band below
    e = 1e-9 * scale + 1e-6 * abs(v)
    return v - e * (1 + 2e-6), v + e * (1 + 2e-6)


def descent_slack(obj, delta, n, rg_inf):
    if not np.isfinite(obj):
        return 0.0
    m = max(1.0, abs(obj))
    return 1e-10 * m + min(10 * n * rg_inf * delta, 1e-6 * m)


def cons_ok(delta, znorm):
    return delta <= 1e-6 * max(1.0, znorm)
