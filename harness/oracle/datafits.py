"""Float mirror of specs/math/Datafit.tla: the DOCUMENTED losses and their derivatives w.r.t. the
linear predictor z = Xw + b. Never imports skglm.

Descriptor: {"kind": "Quadratic"} | {"kind": "WeightedQuadratic", "sample_weights": [...]}
 | {"kind": "Logistic"} | {"kind": "QuadraticSVC"} | {"kind": "Huber", "delta": d}
 | {"kind": "Poisson"} | {"kind": "Gamma"} | {"kind": "Cox", "use_efron": bool}
 | {"kind": "QuadraticGroup", grp_ptr, grp_indices} | {"kind": "LogisticGroup", ...}
 | {"kind": "QuadraticMultiTask"} | {"kind": "SqrtQuadratic"} | {"kind": "Pinball", "quantile_level": q}
"""
import numpy as np

SMOOTH = ("Quadratic", "WeightedQuadratic", "Logistic", "Huber", "Poisson", "Gamma", "Cox",
          "QuadraticGroup", "LogisticGroup", "QuadraticMultiTask", "QuadraticSVC")


def _cox_sets(y):
    tm, s = y[:, 0], y[:, 1]
    return tm, s


def loss(desc, y, z, w=None):
    """Documented loss as a function of the linear predictor z (w only for QuadraticSVC)."""
    k = desc["kind"]
    y = np.asarray(y, dtype=float)
    z = np.asarray(z, dtype=float)
    n = z.shape[0]
    if k in ("Quadratic", "QuadraticGroup", "QuadraticMultiTask"):
        return float(((y - z) ** 2).sum() / (2 * n))
    if k == "WeightedQuadratic":
        sw = np.asarray(desc["sample_weights"], dtype=float)
        return float((sw * (y - z) ** 2).sum() / (2 * sw.sum()))
    if k in ("Logistic", "LogisticGroup"):
        return float(np.logaddexp(0.0, -y * z).sum() / n)
    if k == "QuadraticSVC":
        # dual of the hinge SVC: 0.5 ||(yX)^T w||^2 - sum w ; z = (yX)^T w
        return float((z ** 2).sum() / 2 - np.sum(w))
    if k == "Huber":
        d = desc["delta"]
        r = np.abs(y - z)
        return float(np.where(r < d, 0.5 * r ** 2, d * r - 0.5 * d * d).sum() / n)
    if k == "Poisson":
        return float((np.exp(z) - y * z).sum() / n)
    if k == "Gamma":
        # documented: 1/n sum( Xw_i + y_i exp(-Xw_i) - log(y_i) - 1 )   (half unit deviance)
        return float((z + y * np.exp(-z) - np.log(y) - 1).sum() / n)
    if k == "Cox":
        tm, s = _cox_sets(y)
        ez = np.exp(z)
        tot = 0.0
        if not desc.get("use_efron", False):
            for i in range(n):
                if s[i]:
                    tot += -z[i] + np.log(ez[tm >= tm[i]].sum())
        else:
            for t in np.unique(tm[s != 0]):
                H = np.where((tm == t) & (s != 0))[0]
                R = ez[tm >= t].sum()
                sh = ez[H].sum()
                tot += -z[H].sum()
                for l in range(len(H)):
                    tot += np.log(R - l / len(H) * sh)
        return float(tot / n)
    if k == "SqrtQuadratic":
        return float(np.linalg.norm(y - z))
    if k == "Pinball":
        q = desc["quantile_level"]
        r = y - z
        return float(np.where(r >= 0, q * r, -(1 - q) * r).sum())
    raise KeyError(k)


def raw_grad(desc, y, z):
    """Gradient of the loss w.r.t. z (smooth datafits)."""
    k = desc["kind"]
    y = np.asarray(y, dtype=float)
    z = np.asarray(z, dtype=float)
    n = z.shape[0]
    if k in ("Quadratic", "QuadraticGroup", "QuadraticMultiTask"):
        return (z - y) / n
    if k == "WeightedQuadratic":
        sw = np.asarray(desc["sample_weights"], dtype=float)
        return sw * (z - y) / sw.sum()
    if k in ("Logistic", "LogisticGroup"):
        return -y / (1 + np.exp(y * z)) / n
    if k == "QuadraticSVC":
        return z.copy()
    if k == "Huber":
        d = desc["delta"]
        r = y - z
        return np.where(np.abs(r) < d, -r, -np.sign(r) * d) / n
    if k == "Poisson":
        return (np.exp(z) - y) / n
    if k == "Gamma":
        return (1 - y * np.exp(-z)) / n
    if k == "Cox":
        tm, s = _cox_sets(y)
        ez = np.exp(z)
        g = np.zeros(n)
        if not desc.get("use_efron", False):
            for i in range(n):
                if s[i]:
                    g[i] -= 1
                    R = tm >= tm[i]
                    g[R] += ez[R] / ez[R].sum()
        else:
            for t in np.unique(tm[s != 0]):
                H = np.where((tm == t) & (s != 0))[0]
                Rm = tm >= t
                g[H] -= 1
                for l in range(len(H)):
                    den = ez[Rm].sum() - l / len(H) * ez[H].sum()
                    num = np.where(Rm, ez, 0.0)
                    num[H] -= l / len(H) * ez[H]
                    g += num / den
        return g / n
    if k == "SqrtQuadratic":
        r = z - y
        return r / np.linalg.norm(r)
    if k == "Pinball":
        # a subgradient (the loss is not differentiable at zero residuals)
        q = desc["quantile_level"]
        r = y - z
        return np.where(r > 0, -q, np.where(r < 0, 1 - q, 0.0))
    raise KeyError(k)


def raw_hess_diag(desc, y, z):
    """Diagonal of the Hessian w.r.t. z when the Hessian is diagonal; None otherwise."""
    k = desc["kind"]
    y = np.asarray(y, dtype=float)
    z = np.asarray(z, dtype=float)
    n = z.shape[0]
    if k in ("Quadratic", "QuadraticGroup"):
        return np.ones(n) / n
    if k == "WeightedQuadratic":
        sw = np.asarray(desc["sample_weights"], dtype=float)
        return sw / sw.sum()
    if k in ("Logistic", "LogisticGroup"):
        e = np.exp(-y * z)
        return e / (1 + e) ** 2 / n
    if k == "Poisson":
        return np.exp(z) / n
    if k == "Gamma":
        return y * np.exp(-z) / n
    if k == "Cox":
        # documented diagonal upper bound (doc/tutorials/cox_datafit.rst): the positive part of the
        # Hessian, diag(exp(z) * B^T (s / B exp(z)))  (Efron: with the tie-corrected risk sums)
        tm, s = _cox_sets(y)
        ez = np.exp(z)
        h = np.zeros(n)
        if not desc.get("use_efron", False):
            for i in range(n):
                if s[i]:
                    R = tm >= tm[i]
                    h[R] += ez[R] / ez[R].sum()
        else:
            for t in np.unique(tm[s != 0]):
                H = np.where((tm == t) & (s != 0))[0]
                Rm = tm >= t
                for l in range(len(H)):
                    den = ez[Rm].sum() - l / len(H) * ez[H].sum()
                    num = np.where(Rm, ez, 0.0)
                    num[H] -= l / len(H) * ez[H]
                    h += num / den
        return h / n
    if k == "SqrtQuadratic":
        return np.full(n, 1.0 / np.linalg.norm(y - z))
    return None


def full_hessian_z(desc, y, z, eps=1e-6):
    """Dense Hessian w.r.t. z by central differences of raw_grad (Cox, SqrtQuadratic)."""
    n = len(z)
    H = np.zeros((n, n))
    for i in range(n):
        e = np.zeros(n)
        e[i] = eps
        H[:, i] = (raw_grad(desc, y, z + e) - raw_grad(desc, y, z - e)) / (2 * eps)
    return (H + H.T) / 2


def intercept_grad(desc, y, z):
    """d loss / d b for z = Xw + b."""
    g = raw_grad(desc, y, z)
    return g.sum(axis=0)


def grad_w(desc, X, y, z):
    """Full gradient w.r.t. w: X^T raw_grad  (X dense ndarray)."""
    return X.T @ raw_grad(desc, y, z)


def coord_lipschitz(desc, X, y):
    """Documented coordinate-wise curvature bounds used as CD step sizes (from the maths)."""
    k = desc["kind"]
    n = X.shape[0]
    sq = (X ** 2).sum(axis=0)
    if k in ("Quadratic", "Huber", "QuadraticMultiTask"):
        return sq / n
    if k == "WeightedQuadratic":
        sw = np.asarray(desc["sample_weights"], dtype=float)
        return (sw[:, None] * X ** 2).sum(axis=0) / sw.sum()
    if k == "Logistic":
        return sq / (4 * n)
    if k == "QuadraticSVC":
        return sq
    return None


def is_convex(desc):
    return True
