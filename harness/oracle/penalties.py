"""Float mirror of specs/math/Penalty.tla (piece tables and the operators derived from them).

Never imports skglm. A penalty is described by a plain dict ("descriptor"):
    {"kind": "L1", "alpha": a, "positive": bool}
    {"kind": "L1_plus_L2", "alpha", "l1_ratio", "positive"}
    {"kind": "WeightedL1", "alpha", "weights": [...], "positive"}
    {"kind": "MCPenalty", "alpha", "gamma", "positive"}
    {"kind": "WeightedMCPenalty", "alpha", "gamma", "weights", "positive"}
    {"kind": "SCAD", "alpha", "gamma"}
    {"kind": "IndicatorBox", "alpha"}            (box [0, alpha])
    {"kind": "PositiveConstraint"}
    {"kind": "L2", "alpha"}                      (smooth, alpha/2 w^2)
    {"kind": "L0_5"|"L2_3", "alpha"}, {"kind": "LogSumPenalty", "alpha", "eps"}
    {"kind": "SLOPE", "alphas": [...]}
  block penalties (rows of W for multitask, groups for group penalties):
    {"kind": "L2_1"|"L2_05", "alpha"}, {"kind": "BlockMCPenalty"|"BlockSCAD", "alpha", "gamma"}
    {"kind": "WeightedGroupL2", "alpha", "weights", "grp_ptr", "grp_indices", "positive"}
    {"kind": "WeightedL1GroupL2", "alpha", "weights_groups", "weights_features", grp_ptr, grp_indices}

Scalar piecewise-quadratic penalties are represented exactly like in the TLA+ module:
a list of pieces (lo, hi, a, b, c) over signed closed intervals; value a u^2 + b u + c inside,
+inf outside the union. Prox, one-sided derivatives, subdifferential and distance are DERIVED
from the table, not transcribed from the implementation.
"""
import math
import numpy as np

INF = float("inf")

PIECEWISE = ("L1", "L1_plus_L2", "WeightedL1", "MCPenalty", "WeightedMCPenalty", "SCAD",
             "IndicatorBox", "PositiveConstraint", "L2")
SCALAR_OTHER = ("L0_5", "L2_3", "LogSumPenalty")
ROW_BLOCK = ("L2_1", "L2_05", "BlockMCPenalty", "BlockSCAD")
GROUP_BLOCK = ("WeightedGroupL2", "WeightedL1GroupL2")


# ----------------------------------------------------------------- piece tables
def _even(pos_pieces):
    """Mirror a table given on u >= 0 to the whole line."""
    neg = [(-hi, -lo, a, -b, c) for (lo, hi, a, b, c) in reversed(pos_pieces)]
    return neg + pos_pieces


def table(desc, j=0):
    """Piece table of coordinate j of a piecewise-quadratic scalar penalty."""
    k = desc["kind"]
    pos = bool(desc.get("positive", False))
    if k == "L1":
        p = [(0.0, INF, 0.0, desc["alpha"], 0.0)]
    elif k == "WeightedL1":
        p = [(0.0, INF, 0.0, desc["alpha"] * desc["weights"][j], 0.0)]
    elif k == "L1_plus_L2":
        al, r = desc["alpha"], desc["l1_ratio"]
        p = [(0.0, INF, (1 - r) * al / 2.0, r * al, 0.0)]
    elif k in ("MCPenalty", "WeightedMCPenalty"):
        al, g = desc["alpha"], desc["gamma"]
        wt = desc["weights"][j] if k == "WeightedMCPenalty" else 1.0
        p = [(0.0, g * al, -wt / (2.0 * g), wt * al, 0.0),
             (g * al, INF, 0.0, 0.0, wt * g * al * al / 2.0)]
    elif k == "SCAD":
        al, g = desc["alpha"], desc["gamma"]
        p = [(0.0, al, 0.0, al, 0.0),
             (al, g * al, -1.0 / (2 * (g - 1)), g * al / (g - 1), -al * al / (2 * (g - 1))),
             (g * al, INF, 0.0, 0.0, al * al * (g + 1) / 2.0)]
    elif k == "IndicatorBox":
        return [(0.0, desc["alpha"], 0.0, 0.0, 0.0)]
    elif k == "PositiveConstraint":
        return [(0.0, INF, 0.0, 0.0, 0.0)]
    elif k == "L2":
        return [(-INF, INF, desc["alpha"] / 2.0, 0.0, 0.0)]
    else:
        raise KeyError(k)
    return p if pos else _even(p)


def tab_value(P, u):
    for (lo, hi, a, b, c) in P:
        if lo <= u <= hi:
            return a * u * u + b * u + c
    return INF


def tab_right(P, u):
    for (lo, hi, a, b, c) in P:
        if lo <= u < hi:
            return 2 * a * u + b
    return INF if any(lo <= u <= hi for (lo, hi, *_r) in P) else None


def tab_left(P, u):
    for (lo, hi, a, b, c) in P:
        if lo < u <= hi:
            return 2 * a * u + b
    return -INF if any(lo <= u <= hi for (lo, hi, *_r) in P) else None


def tab_dist(P, u, v):
    """Distance of v to the regular subdifferential [left, right] of the table at u."""
    lo, hi = tab_left(P, u), tab_right(P, u)
    if lo is None or hi is None or lo > hi:
        return INF
    if v < lo:
        return lo - v
    if v > hi:
        return v - hi
    return 0.0


def tab_prox_set(P, x, s):
    """All global minimisers of 0.5 (u-x)^2 + s P(u) among exact candidates."""
    cands = set()
    for (lo, hi, a, b, c) in P:
        for e in (lo, hi):
            if math.isfinite(e):
                cands.add(e)
        den = 1 + 2 * s * a
        if den > 0:
            u = (x - s * b) / den
            if lo <= u <= hi:
                cands.add(u)
    vals = {u: 0.5 * (u - x) ** 2 + s * tab_value(P, u) for u in cands}
    m = min(vals.values())
    return [u for u, v in vals.items() if v <= m + 1e-15 * max(1.0, abs(m))], m


# ----------------------------------------------------------------- generic API
def n_blocks(desc, n_features):
    if desc["kind"] in GROUP_BLOCK:
        return len(desc["grp_ptr"]) - 1
    return n_features


def groups(desc):
    gp, gi = desc["grp_ptr"], desc["grp_indices"]
    return [list(gi[gp[g]:gp[g + 1]]) for g in range(len(gp) - 1)]


def feasible(desc, w):
    """Configured constraint holds (positivity or box), exactly."""
    w = np.asarray(w, dtype=float)
    k = desc["kind"]
    if k == "IndicatorBox":
        return bool(np.all(w >= 0) and np.all(w <= desc["alpha"]))
    if k == "PositiveConstraint" or desc.get("positive", False):
        return bool(np.all(w >= 0))
    return True


def has_constraint(desc):
    return desc["kind"] in ("IndicatorBox", "PositiveConstraint") or bool(desc.get("positive"))


def value(desc, w):
    """Penalty value of the documented definition (+inf outside the configured domain)."""
    w = np.asarray(w, dtype=float)
    k = desc["kind"]
    if not feasible(desc, w):
        return INF
    if k in PIECEWISE:
        if k == "L1":
            return desc["alpha"] * np.abs(w).sum()
        if k == "WeightedL1":
            return desc["alpha"] * (np.abs(w) * np.asarray(desc["weights"])).sum()
        if k == "L1_plus_L2":
            al, r = desc["alpha"], desc["l1_ratio"]
            return r * al * np.abs(w).sum() + (1 - r) * al / 2 * (w ** 2).sum()
        if k == "L2":
            return desc["alpha"] / 2 * (w ** 2).sum()
        return float(sum(tab_value(table(desc, j), float(w[j])) for j in range(len(w))))
    if k == "L0_5":
        return desc["alpha"] * np.sqrt(np.abs(w)).sum()
    if k == "L2_3":
        return desc["alpha"] * (np.abs(w) ** (2 / 3)).sum()
    if k == "LogSumPenalty":
        return desc["alpha"] * np.log1p(np.abs(w) / desc["eps"]).sum()
    if k == "SLOPE":
        al = np.sort(np.asarray(desc["alphas"], dtype=float))[::-1]
        return float((np.sort(np.abs(w))[::-1] * al).sum())
    if k in ROW_BLOCK:
        W = w.reshape(len(w), -1)
        nr = np.sqrt((W ** 2).sum(axis=1))
        return float(sum(_norm_pen_value(desc, r) for r in nr))
    if k == "WeightedGroupL2":
        return float(sum(desc["alpha"] * desc["weights"][g] * np.linalg.norm(w[idx])
                         for g, idx in enumerate(groups(desc))))
    if k == "WeightedL1GroupL2":
        v = sum(desc["weights_groups"][g] * np.linalg.norm(w[idx])
                for g, idx in enumerate(groups(desc)))
        v += (np.asarray(desc["weights_features"]) * np.abs(w)).sum()
        return float(desc["alpha"] * v)
    raise KeyError(k)


def _norm_pen_desc(desc):
    """Scalar penalty applied to the row/group norm by a block penalty."""
    k = desc["kind"]
    if k == "L2_1":
        return {"kind": "L1", "alpha": desc["alpha"], "positive": True}
    if k == "BlockMCPenalty":
        return {"kind": "MCPenalty", "alpha": desc["alpha"], "gamma": desc["gamma"],
                "positive": True}
    if k == "BlockSCAD":
        return {"kind": "SCAD", "alpha": desc["alpha"], "gamma": desc["gamma"]}
    if k == "L2_05":
        return {"kind": "L0_5", "alpha": desc["alpha"]}
    raise KeyError(k)


def _norm_pen_value(desc, r):
    nd = _norm_pen_desc(desc)
    if nd["kind"] == "L0_5":
        return nd["alpha"] * math.sqrt(r)
    return tab_value(table(nd) if nd["kind"] != "SCAD" else table(nd), float(r))


def _scalar_deriv(desc, u):
    """Derivative of a non-piecewise scalar penalty at u != 0."""
    k = desc["kind"]
    s = math.copysign(1.0, u)
    if k == "L0_5":
        return s * desc["alpha"] / (2 * math.sqrt(abs(u)))
    if k == "L2_3":
        return s * desc["alpha"] * 2 / (3 * abs(u) ** (1 / 3))
    if k == "LogSumPenalty":
        return s * desc["alpha"] / (desc["eps"] + abs(u))
    raise KeyError(k)


def subdiff_dist(desc, w, grad):
    """Per block: distance of -grad to the regular subdifferential of the penalty at w.

    w: (p,) or (p, T) ; grad: same shape (full gradient of the datafit, every feature).
    Returns an array with one entry per feature (scalar/row penalties) or per group.
    """
    w = np.asarray(w, dtype=float)
    grad = np.asarray(grad, dtype=float)
    k = desc["kind"]
    if k in PIECEWISE:
        return np.array([tab_dist(table(desc, j), float(w[j]), -float(grad[j]))
                         for j in range(len(w))])
    if k in SCALAR_OTHER:
        out = np.zeros(len(w))
        for j in range(len(w)):
            if w[j] == 0:
                if k == "LogSumPenalty":
                    out[j] = max(0.0, abs(grad[j]) - desc["alpha"] / desc["eps"])
                else:
                    out[j] = 0.0  # one-sided derivatives are -inf / +inf : subdifferential = R
            else:
                out[j] = abs(-grad[j] - _scalar_deriv(desc, float(w[j])))
        return out
    if k in ROW_BLOCK:
        W = w.reshape(len(w), -1)
        G = grad.reshape(len(w), -1)
        out = np.zeros(len(W))
        nd = _norm_pen_desc(desc)
        for j in range(len(W)):
            r = float(np.linalg.norm(W[j]))
            if r == 0:
                if nd["kind"] == "L0_5":
                    out[j] = 0.0
                else:
                    # subdifferential at 0 = ball of radius phi'(0+)
                    slope0 = tab_right(table(nd), 0.0)
                    out[j] = max(0.0, float(np.linalg.norm(G[j])) - slope0)
            else:
                if nd["kind"] == "L0_5":
                    d = nd["alpha"] / (2 * math.sqrt(r))
                else:
                    P = table(nd)
                    lo, hi = tab_left(P, r), tab_right(P, r)
                    if lo != hi:
                        # kink of phi at r>0 (only at region boundaries; phi is C1 for MCP/SCAD)
                        d = None
                    else:
                        d = lo
                if d is None:
                    lo, hi = sorted((lo, hi))
                    # distance of -G to {t W/r : t in [lo,hi]} (convex kink) - not reached for C1 phi
                    proj = float(-(G[j] @ W[j]) / r)
                    t = min(max(proj, lo), hi)
                    out[j] = float(np.linalg.norm(G[j] + t * W[j] / r))
                else:
                    out[j] = float(np.linalg.norm(G[j] + d * W[j] / r))
        return out
    if k == "WeightedGroupL2":
        out = np.zeros(len(desc["grp_ptr"]) - 1)
        pos = bool(desc.get("positive", False))
        for g, idx in enumerate(groups(desc)):
            wg, gg = w[idx], grad[idx]
            lam = desc["alpha"] * desc["weights"][g]
            r = float(np.linalg.norm(wg))
            if pos and np.any(wg < 0):
                out[g] = INF
            elif r == 0:
                if pos:
                    # subdiff of lam||.|| + indicator(>=0) at 0 = {v : ||max(v,0)|| <= lam}
                    neg = np.maximum(-gg, 0.0)
                    out[g] = max(0.0, float(np.linalg.norm(neg)) - lam)
                else:
                    out[g] = max(0.0, float(np.linalg.norm(gg)) - lam)
            else:
                res = -gg - lam * wg / r
                if pos:
                    # normal cone of the orthant: coordinates at 0 may absorb negative residuals
                    z = wg == 0
                    res = np.where(z, np.maximum(res, 0.0), res)
                out[g] = float(np.linalg.norm(res))
        return out
    if k == "WeightedL1GroupL2":
        out = np.zeros(len(desc["grp_ptr"]) - 1)
        wf = np.asarray(desc["weights_features"], dtype=float)
        for g, idx in enumerate(groups(desc)):
            wg, gg = w[idx], grad[idx]
            lam1 = desc["alpha"] * wf[idx]
            lam2 = desc["alpha"] * desc["weights_groups"][g]
            r = float(np.linalg.norm(wg))
            if r == 0:
                # dist of -g to {lam1*s + lam2*u : |s_j|<=1, ||u||<=1}
                st = np.sign(-gg) * np.maximum(np.abs(gg) - lam1, 0.0)
                out[g] = max(0.0, float(np.linalg.norm(st)) - lam2)
            else:
                res = np.zeros(len(idx))
                for i in range(len(idx)):
                    base = -gg[i] - lam2 * wg[i] / r
                    if wg[i] != 0:
                        res[i] = base - lam1[i] * np.sign(wg[i])
                    else:
                        res[i] = np.sign(base) * max(abs(base) - lam1[i], 0.0)
                out[g] = float(np.linalg.norm(res))
        return out
    if k == "SLOPE":
        raise NotImplementedError("SLOPE subdifferential")
    raise KeyError(k)


def prox_scalar(desc, x, s, j=0):
    """Global minimisers of 0.5 (u-x)^2 + s pen_j(u) (scalar penalties) and the attained value.

    Piecewise-quadratic tables: exact candidates. Others (L0_5, L2_3, LogSum): the minimiser lies
    between 0 and x; dense grid + two refinements (used only as a float oracle)."""
    k = desc["kind"]
    if k in PIECEWISE:
        return tab_prox_set(table(desc, j), float(x), float(s))
    x = float(x)

    def f(u):
        return 0.5 * (u - x) ** 2 + s * value(desc, np.array([u]))
    lo, hi = min(0.0, x), max(0.0, x)
    best, fb = 0.0, f(0.0)
    width = hi - lo
    for _ in range(4):
        if width <= 0:
            break
        g = np.linspace(lo, hi, 2001)
        vals = 0.5 * (g - x) ** 2 + s * np.array([value(desc, np.array([u])) for u in g])
        i0 = int(np.argmin(vals))
        if vals[i0] < fb:
            best, fb = float(g[i0]), float(vals[i0])
        step = (hi - lo) / 2000
        lo, hi = max(min(0.0, x), best - 2 * step), min(max(0.0, x), best + 2 * step)
        width = hi - lo
    return [best], fb


def prox_block(desc, x, s, g=0):
    """Prox of one block (row or group) for the convex block penalties: closed forms from KKT."""
    k = desc["kind"]
    x = np.asarray(x, dtype=float)
    if k == "L2_1":
        r = np.linalg.norm(x)
        t = desc["alpha"] * s
        return np.zeros_like(x) if r <= t else (1 - t / r) * x
    if k == "WeightedGroupL2":
        t = desc["alpha"] * s * desc["weights"][g]
        if desc.get("positive"):
            xp = np.maximum(x, 0.0)
        else:
            xp = x
        r = np.linalg.norm(xp)
        return np.zeros_like(x) if r <= t else (1 - t / r) * xp
    if k == "WeightedL1GroupL2":
        idx = groups(desc)[g]
        t1 = desc["alpha"] * s * np.asarray(desc["weights_features"], dtype=float)[idx]
        st = np.sign(x) * np.maximum(np.abs(x) - t1, 0.0)
        t2 = desc["alpha"] * s * desc["weights_groups"][g]
        r = np.linalg.norm(st)
        return np.zeros_like(x) if r <= t2 else (1 - t2 / r) * st
    if k == "L2_05":
        r = float(np.linalg.norm(x))
        if r == 0:
            return np.zeros_like(x)
        us, _ = prox_scalar({"kind": "L0_5", "alpha": desc["alpha"]}, r, float(s))
        return (us[0] / r) * x
    if k in ("BlockMCPenalty", "BlockSCAD"):
        r = float(np.linalg.norm(x))
        if r == 0:
            return np.zeros_like(x)
        nd = _norm_pen_desc(desc)
        if nd["kind"] == "MCPenalty":
            nd = dict(nd, positive=True)
        P = table(nd) if nd["kind"] != "SCAD" else [p for p in table(nd) if p[0] >= 0]
        us, _ = tab_prox_set(P, r, float(s))
        return (us[0] / r) * x
    raise KeyError(k)


def is_penalized(desc, n):
    k = desc["kind"]
    if k == "WeightedL1":
        return np.asarray(desc["weights"], dtype=float)[:n] != 0
    return np.ones(n, dtype=bool)


def is_convex(desc):
    return desc["kind"] in ("L1", "L1_plus_L2", "WeightedL1", "IndicatorBox", "PositiveConstraint",
                            "L2", "SLOPE", "L2_1", "WeightedGroupL2", "WeightedL1GroupL2")


def gen_support(desc, w):
    w = np.asarray(w, dtype=float)
    k = desc["kind"]
    if k == "IndicatorBox":
        return (w != 0) & (w != desc["alpha"])
    if k in GROUP_BLOCK:
        return np.array([bool(np.any(w[idx])) for idx in groups(desc)])
    if w.ndim == 2:
        return np.any(w != 0, axis=1)
    return w != 0
