"""Common frame of every registered check: timing, evidence, known findings, VIOLATION lines, exit code.

Exit codes: 0 property held on everything explored (known findings are printed, not counted);
            1 at least one violation not listed in known_findings.jsonl;
            2 machinery failure (TLC crash, oracle != spec, no verdict) -- never a property verdict.
"""
import hashlib
import json
import os
import sys
import time
import traceback

VERIF = os.path.dirname(os.path.dirname(os.path.abspath(__file__)))
KNOWN = os.path.join(VERIF, "known_findings.jsonl")
LEVELS = {"model_checking", "exploration", "fault_enumeration", "proof", "translation_validation",
          "other"}


def load_known():
    out = []
    if os.path.exists(KNOWN):
        for line in open(KNOWN):
            line = line.strip()
            if line and not line.startswith("#"):
                out.append(json.loads(line))
    return out


def _matches(entry, prop, clause, meta):
    if entry.get("status", "known") != "known":
        return False           # "fixed" entries suppress nothing
    if entry.get("property") != prop and prop not in entry.get("properties", []):
        return False
    if "clause" in entry and entry["clause"] != clause and clause not in entry.get("clauses", []):
        if not ("clauses" in entry and clause in entry["clauses"]):
            return False
    for k, v in entry.get("match", {}).items():
        mv = meta.get(k)
        if isinstance(v, list):
            if mv not in v:
                return False
        elif mv != v:
            return False
    return True


class Check:
    def __init__(self, prop, tier, seed, level="model_checking"):
        self.prop = prop
        self.tier = tier
        self.seed = int(seed)
        self.level = level
        self.t0 = time.time()
        self.cov = dict(states=0, transitions=0, traces_validated_against_impl=0, samples=[],
                        evaluations=0, distinct_nontrivial=0, rule="", trusted_base=[],
                        clause_evaluations={}, clause_failures={}, action_coverage={},
                        design_models=[], binding=[], known_findings_hit=[], notes=[])
        self._distinct = set()
        self.assumptions = []
        self.violations = []      # (clause, meta, replay_path)
        self.known_hits = {}
        self.known = load_known()
        self.machinery_errors = []

    # ---- coverage accounting
    def add_tlc(self, res, name=None, kind="design"):
        self.cov["states"] += int(res.get("distinct", 0))
        self.cov["transitions"] += int(res.get("states", 0))
        if name:
            self.cov["design_models"].append(dict(model=name, kind=kind,
                                                  distinct_states=res.get("distinct", 0),
                                                  states_generated=res.get("states", 0),
                                                  wall_s=round(res.get("wall_s", 0), 2),
                                                  violated=res.get("violated", [])))

    def add_verdicts(self, v):
        self.cov["states"] += v.states
        self.cov["transitions"] += v.transitions
        for a, c in v.action_coverage.items():
            self.cov["action_coverage"][a] = self.cov["action_coverage"].get(a, 0) + c

    def count(self, signature, nontrivial=True):
        self.cov["evaluations"] += 1
        if nontrivial:
            self._distinct.add(signature)

    def clause(self, name, ok):
        ce = self.cov["clause_evaluations"]
        ce[name] = ce.get(name, 0) + 1
        if not ok:
            cf = self.cov["clause_failures"]
            cf[name] = cf.get(name, 0) + 1

    def sample(self, obj, limit=6):
        if len(self.cov["samples"]) < limit:
            self.cov["samples"].append(obj)

    # ---- violations
    def violation(self, clause, meta, replay_obj):
        """Report a violated clause witnessed on the real code. Known finding -> printed once."""
        for e in self.known:
            if _matches(e, self.prop, clause, meta):
                key = e.get("id", e.get("what"))
                if key not in self.known_hits:
                    self.known_hits[key] = (e, 0)
                self.known_hits[key] = (e, self.known_hits[key][1] + 1)
                return "known"
        blob = json.dumps(replay_obj, sort_keys=True, default=_default)
        h = hashlib.sha1(blob.encode()).hexdigest()[:12]
        d = os.path.join(os.environ.get("VERIF_OUT", VERIF), "replays", self.prop)
        os.makedirs(d, exist_ok=True)
        path = os.path.join(d, f"{h}.json")
        with open(path, "w") as f:
            f.write(blob)
        self.violations.append((clause, meta, path))
        return "violation"

    def machinery(self, msg):
        self.machinery_errors.append(msg)

    # ---- finish
    def finish(self):
        wall = time.time() - self.t0
        self.cov["distinct_nontrivial"] = len(self._distinct)
        if not self.cov["samples"]:
            self.cov["samples"].append({"note": "no case was completed by this run",
                                        "machinery_errors": self.machinery_errors[:2]})
        self.cov["states"] = max(1, self.cov["states"]) if self.cov["evaluations"] else self.cov["states"]
        for key, (e, n) in self.known_hits.items():
            print(f"KNOWN-FINDING: property={self.prop} {e['what']} [{n} occurrence(s)]")
            self.cov["known_findings_hit"].append(dict(id=key, occurrences=n))
        seen = set()
        for clause, meta, path in self.violations:
            if path in seen:
                continue
            seen.add(path)
            if len(seen) <= 25:
                print(f"VIOLATION property={self.prop} replay={path}")
                print(f"  clause={clause} scenario={json.dumps(meta, default=_default)[:400]}")
        if len(seen) > 25:
            print(f"  ... {len(seen) - 25} more violations (see replays/{self.prop}/)")
        ev = dict(property_id=self.prop, tier=self.tier, seed=self.seed, level=self.level,
                  coverage=self.cov, assumptions=self.assumptions, wall_s=round(wall, 2),
                  violations=len(seen))
        if self.machinery_errors:
            ev["coverage"]["machinery_errors"] = self.machinery_errors[:20]
        # (VERIF_OUT redirects evidence and replay files of trial runs on seeded changes: /verif/evidence is only
        #  ever written by runs against /repo itself)
        out_root = os.environ.get("VERIF_OUT", VERIF)
        os.makedirs(os.path.join(out_root, "evidence"), exist_ok=True)
        dst = os.path.join(out_root, "evidence", f"{self.prop}.json")
        tmp = dst + f".tmp{os.getpid()}"
        with open(tmp, "w") as f:
            json.dump(ev, f, indent=1, default=_default)
        os.replace(tmp, dst)                       # atomic: two tiers of one check may finish at the same time
        print(f"[{self.prop}] tier={self.tier} seed={self.seed} evaluations={self.cov['evaluations']} "
              f"distinct_nontrivial={self.cov['distinct_nontrivial']} tlc_states={self.cov['states']} "
              f"traces={self.cov['traces_validated_against_impl']} violations={len(seen)} "
              f"known={len(self.known_hits)} wall={wall:.1f}s")
        if self.machinery_errors:
            for m in self.machinery_errors[:10]:
                print("MACHINERY-FAILURE:", m)
            return 2
        return 1 if seen else 0


def _default(o):
    import numpy as np
    if isinstance(o, (np.integer,)):
        return int(o)
    if isinstance(o, (np.floating,)):
        return float(o)
    if isinstance(o, np.ndarray):
        return o.tolist()
    if isinstance(o, (np.bool_,)):
        return bool(o)
    return str(o)


def main_wrapper(fn):
    """Run a check function(check) -> None and convert crashes into exit 2."""
    try:
        rc = fn()
    except SystemExit:
        raise
    except BaseException:  # noqa: BLE001
        traceback.print_exc()
        print("MACHINERY-FAILURE: uncaught exception in check")
        sys.exit(2)
    sys.exit(rc)
