"""Instantiate a TLC-generated solver scenario (specs/api/SolverScenario.tla) with seeded numbers,
run the real solver under the tracer, return the trace. Runs inside worker processes."""
import json

import numpy as np

from . import gen
from .oracle import problem as PB
from .oracle import penalties as OP

SIZES = {"tall": (40, 12, 0.3), "wide": (15, 30, 0.3), "corr98": (30, 20, 0.98),
         "corr98wide": (15, 24, 0.98), "big": (60, 120, 0.9), "contrast": (40, 12, 0.3)}
DESCENT_SOLVERS = {"AndersonCD", "ProxNewton", "GroupBCD", "GroupProxNewton", "MultiTaskBCD", "GramCD"}
CERT_SOLVERS = DESCENT_SOLVERS | {"LBFGS"}
NONCONVEX = {"MCPenalty", "WeightedMCPenalty", "SCAD", "BlockMCPenalty", "BlockSCAD", "L0_5", "L2_3",
             "LogSumPenalty", "L2_05"}


def _weights(rng, kind, m):
    if kind == "unit":
        return np.ones(m)
    w = rng.uniform(0.5, 2.0, m)
    if kind == "zeros":
        nz = max(1, m // 4)
        idx = rng.choice(m, nz, replace=False)
        w[idx] = 0.0
        if np.all(w == 0):
            w[0] = 1.0
    return w


def build(sc, seed):
    """-> dict(prob, X_solver, y, df_desc, pen_desc, solver_kw, w_init, Xw_init, tol, flags)"""
    # canonical form: a scenario read back from a replay file (sorted keys) draws the same numbers
    rng = gen.rng_for(seed, json.dumps(sc, sort_keys=True, default=str))
    n, p, rho = SIZES[sc["data"]]
    s, d, pk = sc["solver"], sc["datafit"], sc["penalty"]
    if pk == "PositiveConstraint" and d in ("Logistic", "LogisticGroup") and p >= n:
        # unregularised logistic regression with more features than samples has no minimiser (some direction of the
        # feasible cone separates the data): not a legitimate problem for any solver -- use the tall shape
        n, p, rho = SIZES["tall"]
    fi = bool(sc["fit_intercept"])
    X = gen.design(rng, n, p, rho=rho, density=0.5 if sc["storage"] == "csc" else 1.0)
    if sc["data"] == "contrast":
        # contrast / effect coding: entries on the lattice Z/8, every column sums EXACTLY to zero (the constant
        # vector is in the null space of X^T)
        X = np.round(X * 8) / 8
        X[0, :] -= X.sum(axis=0)
        X = np.asfortranarray(X)
    dg = sc.get("degen")
    if dg:
        n, p = {"tall": (20, 8), "wide": (6, 9), "single_feature": (12, 1), "single_group": (12, 5)}[dg["shape"]]
        X = gen.design(rng, n, p, rho=0.4, density=0.6 if sc["storage"] == "csc" else 1.0)
        for j, kind in enumerate(dg["cols"][:p]):
            if kind == "zero":
                X[:, j] = 0.0
            elif kind == "dup" and p > 1:
                X[:, j] = X[:, p - 1]
            elif kind == "constant":
                X[:, j] = 1.7
            elif kind == "big":
                X[:, j] *= 1e6
            elif kind == "tiny":
                X[:, j] *= 1e-6
        X = np.asfortranarray(X)
    T = 1
    # ---------------- target and datafit descriptor
    if d in ("Quadratic", "None", "Huber", "QuadraticGroup", "SqrtQuadratic", "Pinball"):
        y = gen.target(rng, X, "reg", offset=1.5 if fi else 0.0)
    elif d == "WeightedQuadratic":
        y = gen.target(rng, X, "reg", offset=1.5 if fi else 0.0)
    elif d in ("Logistic", "LogisticGroup", "QuadraticSVC"):
        y = gen.target(rng, X, "clf", offset=0.5 if fi else 0.0)
        if pk == "PositiveConstraint" and d != "QuadraticSVC" and not sc.get("degen"):
            # an unregularised logistic problem on separable data has no minimiser (the iterates leave every bounded
            # set, whatever the solver): the last two samples repeat the first two with the opposite label
            X = X.copy()
            X[-2:] = X[:2]
            y[-2:] = -y[:2]
            X = np.asfortranarray(X)
    elif d == "Poisson":
        y = gen.target(rng, X, "count")
    elif d == "Gamma":
        y = gen.target(rng, X, "pos")
    elif d in ("Cox", "CoxEfron"):
        y = gen.target(rng, X, "surv")
    elif d == "QuadraticMultiTask":
        T = 3
        y = gen.target(rng, X, "reg", n_tasks=T, offset=1.0 if fi else 0.0)
    else:
        raise KeyError(d)
    if dg and dg["target"] != "regular":
        if d in ("Quadratic", "None", "Huber", "WeightedQuadratic", "QuadraticGroup", "QuadraticMultiTask"):
            y = np.zeros_like(y) + (0.0 if dg["target"] == "zero" else 2.5)
        elif d in ("Logistic", "LogisticGroup") and dg["target"] == "constant":
            y = np.ones_like(y)
        elif d == "Poisson":
            y = np.zeros_like(y) + (0.0 if dg["target"] == "zero" else 3.0)
    if d == "Quadratic" or d == "None":
        dfd = {"kind": "Quadratic"}
    elif d == "WeightedQuadratic":
        sw = rng.uniform(0.5, 2.0, n)
        if sc["weights"] == "zeros":
            sw[rng.choice(n, max(1, n // 5), replace=False)] = 0.0
        dfd = {"kind": d, "sample_weights": sw.tolist()}
    elif d == "Huber":
        # either most samples in the quadratic zone, or most of them beyond delta (where the loss is linear)
        dfd = {"kind": d, "delta": float(np.std(y) * 0.7 + 0.1) if rng.random() < 0.5 else float(np.std(y) * 0.1 + 0.02)}
    elif d == "CoxEfron":
        dfd = {"kind": "Cox", "use_efron": True}
    elif d == "Cox":
        dfd = {"kind": "Cox", "use_efron": False}
    elif d == "Pinball":
        dfd = {"kind": d, "quantile_level": 0.3}
    else:
        dfd = {"kind": d}
    Xo = X                       # the matrix of the optimisation problem the solver sees
    if d == "QuadraticSVC":
        Xo = np.asfortranarray((X * y[:, None]).T)      # (p, n): dual variables index samples
        n, p = Xo.shape
    # ---------------- groups
    grp = None
    groups_permuted = False
    if s in ("GroupBCD", "GroupProxNewton"):
        ptr, idx = gen.groups_random(rng, p, 4, permuted=bool(rng.integers(2)))
        if dg and dg["shape"] == "single_group":
            ptr, idx = [0, p], list(range(p))
        elif dg:
            # groups aligned with the degenerate columns: {0,1} (possibly an all-zero group), {2}, {3}, rest
            cuts = sorted(set([0, min(2, p), min(3, p), min(4, p), p]))
            ptr, idx = cuts, list(range(p))
        grp = (ptr, idx)
        groups_permuted = list(idx) != list(range(len(idx)))
        dfd = dict(dfd, grp_ptr=ptr, grp_indices=idx)
    # ---------------- scale / alpha
    prob0 = dict(X=Xo, y=y, datafit=dfd, penalty={"kind": "L2", "alpha": 0.0}, fit_intercept=fi)
    scale = PB.null_scale(prob0)
    w0 = np.zeros((p + fi,) + ((T,) if T > 1 else ()))
    g0, _ = PB.gradients(prob0, w0)
    if T > 1:
        amax = float(np.max(np.linalg.norm(g0, axis=1)))
    elif grp is not None:
        amax = float(max(np.linalg.norm(g0[grp[1][grp[0][g]:grp[0][g + 1]]])
                         for g in range(len(grp[0]) - 1)))
    else:
        amax = float(np.max(np.abs(g0)))
    amax = max(amax, 1e-3)
    alpha = float(sc["alpha"]) * amax
    # curvature for well-posed non-convex steps
    Lmin = None
    if d in ("Quadratic", "None", "WeightedQuadratic", "Huber", "QuadraticMultiTask"):
        L = (Xo ** 2).sum(axis=0) / n
        Lmin = float(np.min(L[L > 0])) if np.any(L > 0) else 1.0
    elif d in ("Logistic",):
        L = (Xo ** 2).sum(axis=0) / (4 * n)
        Lmin = float(np.min(L[L > 0])) if np.any(L > 0) else 1.0
    wkind = sc["weights"]
    pos = pk.endswith("pos")
    base = pk[:-3] if pos else pk
    base = {"MCP": "MCPenalty", "WeightedMCP": "WeightedMCPenalty"}.get(base, base)
    wellposed = True
    if base == "L1":
        pen = {"kind": "L1", "alpha": alpha, "positive": pos}
    elif base == "L1_plus_L2":
        pen = {"kind": base, "alpha": alpha, "l1_ratio": 0.6, "positive": pos}
    elif base == "WeightedL1":
        pen = {"kind": base, "alpha": alpha, "weights": _weights(rng, wkind, p).tolist(),
               "positive": pos}
    elif base in ("MCPenalty", "WeightedMCPenalty"):
        wmax = 2.0 if base == "WeightedMCPenalty" else 1.0
        gamma = 3.0 if Lmin is None else max(3.0, 1.5 * wmax / Lmin)
        wellposed = Lmin is not None
        pen = {"kind": base, "alpha": alpha, "gamma": gamma, "positive": pos}
        if base == "WeightedMCPenalty":
            pen["weights"] = _weights(rng, wkind, p).tolist()
    elif base == "SCAD":
        gamma = 3.7 if Lmin is None else max(3.7, 1 + 1.5 / Lmin)
        wellposed = Lmin is not None
        pen = {"kind": base, "alpha": alpha, "gamma": gamma}
    elif base == "IndicatorBox":
        pen = {"kind": base, "alpha": 1.0 if d == "QuadraticSVC" else float(np.abs(y).mean() / 4 + .1)}
    elif base == "PositiveConstraint":
        pen = {"kind": base}
    elif base == "L2":
        pen = {"kind": "L2", "alpha": alpha}
    elif base == "L2_1":
        pen = {"kind": base, "alpha": alpha}
    elif base in ("BlockMCPenalty", "BlockSCAD"):
        gamma = max(3.7, 1 + 1.5 / (Lmin or 1.0))
        pen = {"kind": base, "alpha": alpha, "gamma": gamma}
    elif base == "WeightedGroupL2":
        pen = {"kind": base, "alpha": alpha, "weights": _weights(rng, wkind, len(grp[0]) - 1).tolist(),
               "grp_ptr": grp[0], "grp_indices": grp[1], "positive": pos}
    elif base == "WeightedL1GroupL2":
        pen = {"kind": base, "alpha": alpha,
               "weights_groups": _weights(rng, wkind, len(grp[0]) - 1).tolist(),
               "weights_features": _weights(rng, "random", p).tolist(),
               "grp_ptr": grp[0], "grp_indices": grp[1]}
    else:
        raise KeyError(pk)
    prob = dict(X=Xo, y=y, datafit=dfd, penalty=pen, fit_intercept=fi)
    tol = float(sc["tol"]) * scale
    # ---------------- solver knobs
    nb = OP.n_blocks(pen, p)
    p0 = {"1": 1, "2": 2, "10": 10, "p": nb, "10p": 10 * nb}[sc["p0"]]
    kw = dict(tol=tol)
    if s in ("AndersonCD", "GroupBCD", "MultiTaskBCD"):
        kw.update(max_iter=sc["max_iter"], max_epochs=sc["max_epochs"], p0=p0, fit_intercept=fi,
                  ws_strategy=sc["strategy"])
        if s == "MultiTaskBCD":
            kw["use_acc"] = bool(sc["use_acc"])
    elif s == "ProxNewton":
        kw.update(max_iter=sc["max_iter"], p0=p0, fit_intercept=fi, ws_strategy=sc["strategy"])
    elif s == "GroupProxNewton":
        kw.update(max_iter=sc["max_iter"], p0=p0, fit_intercept=fi)
    elif s == "GramCD":
        kw.update(max_iter=sc["max_iter"], use_acc=bool(sc["use_acc"]) and not sc["greedy"],
                  greedy_cd=bool(sc["greedy"]), fit_intercept=False)
    elif s == "LBFGS":
        kw.update(max_iter=max(1, sc["max_iter"]))
    elif s == "FISTA":
        kw.update(max_iter=max(1, sc["max_iter"]) * 20, opt_strategy=sc["strategy"])
    elif s == "PDCD_WS":
        kw.update(max_iter=sc["max_iter"], max_epochs=sc["max_epochs"], p0=p0)
    # ---------------- warm start (consistent and feasible by construction)
    w_init = Xw_init = None
    warm = sc["warm"]
    shape = (p + fi,) + ((T,) if T > 1 else ())
    if warm != "none":
        w = np.zeros(shape)
        if warm == "on_degenerate":
            dgc = (sc.get("degen") or {}).get("cols", [])
            for jj, kind_ in enumerate(dgc[:p]):
                if kind_ == "zero":     # well above tol also in coefficient units (fixpoint scores)
                    w[jj] = (1.0 + 0.5 * jj) * max(1.0, 100 * tol)
            if fi:
                w[-1] = 0.2
        if warm == "infeasible":
            k = min(p, 5)
            idx = rng.choice(p, k, replace=False)
            vals = rng.standard_normal((k,) + shape[1:]) * 0.5
            if pen["kind"] == "IndicatorBox":
                vals = np.abs(vals) + pen["alpha"] * (1 + (np.arange(k) % 2))   # above the box
                vals[0] = -0.3
            else:
                vals = -np.abs(vals) - 0.1 * (np.arange(k).reshape((k,) + (1,) * (vals.ndim - 1)) % 2)
            w[idx] = vals
        if warm in ("random", "bigsupp"):
            k = min(p, 3 if warm == "random" else min(p, 2 * (p0 if p0 < p else 2) + 3))
            idx = rng.choice(p, k, replace=False)
            vals = rng.standard_normal((k,) + shape[1:]) * 0.5
            if OP.has_constraint(pen):
                vals = np.abs(vals)
                if pen["kind"] == "IndicatorBox":
                    vals = np.minimum(vals, pen["alpha"])
            w[idx] = vals
            if fi:
                w[-1] = 0.3
        elif warm == "intercept_only":
            w[-1] = 3.0 if rng.random() < 0.5 else -3.0          # a few units off, either side
        w_init = w
        Xw_init = PB.predictor(prob, w)
        if s == "GramCD":
            Xw_init = None
    pn_illposed = s in ("ProxNewton", "GroupProxNewton") and not OP.is_convex(pen) and sc["strategy"] == "fixpoint"
    flags = dict(
        descent=int(s in DESCENT_SOLVERS and (OP.is_convex(pen) or (wellposed and s != "ProxNewton"
                                                                   and s != "GroupProxNewton"))),
        # (prox-Newton steps 1 / (sum_i hess_i X_ij^2) are unbounded as the curvature vanishes: with a non-convex
        #  penalty the fixed-point residual then leaves the well-posed step range of its prox, so only the
        #  subdifferential strategy defines a certificate there)
        cert=int(s in CERT_SOLVERS and not pn_illposed),
        critval=int((s in CERT_SOLVERS or s == "FISTA") and not pn_illposed),
        haswouter=int(s not in ("LBFGS",)),
    )
    return dict(prob=prob, X=Xo, y=y, dfd=dfd, pen=pen, solver=s, kw=kw, w_init=w_init,
                Xw_init=Xw_init, tol=tol, flags=flags, scale=scale, groups_permuted=groups_permuted)


def run(sc, seed, tid, keep_arrays=False):
    """Execute one scenario on the real code. Returns a JSON-able trace dict."""
    from . import skl, tracer as TR
    b = build(sc, seed)
    s = b["solver"]
    Xs = gen.to_storage(b["X"], "csc_explicit" if sc.get("explicit_zeros") and sc["storage"] == "csc" else sc["storage"])
    fam = "pn" if s in ("ProxNewton",) else "cd"
    tr = TR.Tracer(b["prob"], b["tol"], strategy=sc["strategy"] if s != "LBFGS" else "subdiff",
                   family=fam, meta=dict(sc, seed=seed, groups_permuted=bool(b["groups_permuted"])),
                   keep_arrays=keep_arrays)
    slv = skl.solver(s, **b["kw"])
    df = None if sc["datafit"] == "None" else skl.datafit(b["dfd"])
    pen = skl.penalty(b["pen"])
    y = b["y"]
    if df is not None and s in ("ProxNewton", "FISTA", "LBFGS", "GroupProxNewton", "PDCD_WS"):
        # these solvers do not initialise the datafit themselves: do as the documented examples do
        if hasattr(df, "initialize"):
            if sc["storage"] == "csc" and hasattr(df, "initialize_sparse"):
                df.initialize_sparse(Xs.data, Xs.indptr, Xs.indices, y)
            else:
                df.initialize(b["X"], y)
    w_init = None if b["w_init"] is None else b["w_init"].copy()
    Xw_init = None if b["Xw_init"] is None else np.array(b["Xw_init"], copy=True)
    res, exc = skl.run_traced(tr, slv, Xs, y, df, pen, w_init, Xw_init)
    t = tr.trace(tid)
    t.update(b["flags"])
    t["meta"]["exc"] = None if exc is None else type(exc).__name__ + ": " + str(exc)[:200]
    return t
