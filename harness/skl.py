"""The only part of the harness that touches skglm: build compiled objects from descriptors,
run solvers under the tracer. Imports /repo's working tree (editable install)."""
import os
import warnings
import numpy as np

os.environ.setdefault("SKGLM_VERIF", "1")

import skglm  # noqa: E402
from skglm import _verif  # noqa: E402
from skglm import datafits as _D, penalties as _P, solvers as _S  # noqa: E402
from skglm.utils.jit_compilation import compiled_clone  # noqa: E402

assert _verif.ON, "SKGLM_VERIF=1 must be set before skglm is imported"


def raw_penalty(desc):
    k = desc["kind"]
    a = {x: v for x, v in desc.items() if x != "kind"}
    for key in ("weights", "weights_groups", "weights_features", "alphas"):
        if key in a:
            a[key] = np.asarray(a[key], dtype=np.float64)
    for key in ("grp_ptr", "grp_indices"):
        if key in a:
            a[key] = np.asarray(a[key], dtype=np.int32)
    if k == "SLOPE":
        from skglm.penalties import SLOPE
        return SLOPE(a["alphas"])
    cls = getattr(_P, k)
    return cls(**a)


def raw_datafit(desc):
    k = desc["kind"]
    a = {x: v for x, v in desc.items() if x != "kind"}
    if "sample_weights" in a:
        a["sample_weights"] = np.asarray(a["sample_weights"], dtype=np.float64)
    for key in ("grp_ptr", "grp_indices"):
        if key in a:
            a[key] = np.asarray(a[key], dtype=np.int32)
    if k == "SqrtQuadratic":
        from skglm.experimental.sqrt_lasso import SqrtQuadratic
        return SqrtQuadratic()
    if k == "Pinball":
        from skglm.experimental.quantile_regression import Pinball
        return Pinball(a["quantile_level"])
    cls = getattr(_D, k)
    return cls(**a)


def penalty(desc):
    return compiled_clone(raw_penalty(desc))


def datafit(desc, to_float32=False):
    return compiled_clone(raw_datafit(desc), to_float32=to_float32)


def solver(name, **kw):
    if name == "PDCD_WS":
        from skglm.experimental import PDCD_WS
        return PDCD_WS(**kw)
    return getattr(_S, name)(**kw)


def run_traced(tracer, slv, X, y, df, pen, w_init=None, Xw_init=None, run_checks=True):
    """solver.solve under the tracer; returns (result|None, exception|None)."""
    prev = _verif.set_sink(tracer.sink)
    tracer.call(slv, X, y, w_init, Xw_init)
    res = exc = None
    try:
        with warnings.catch_warnings():
            warnings.simplefilter("ignore")
            res = slv.solve(X, y, df, pen, w_init, Xw_init, run_checks=run_checks)
    except BaseException as e:  # noqa: BLE001
        if isinstance(e, (KeyboardInterrupt, SystemExit)):
            raise
        exc = e
    finally:
        _verif.set_sink(prev)
    tracer.ret(res, exc, w_init, Xw_init)
    return res, exc


# ------------------------------------------------------------------ descriptors from live objects
def describe_penalty(pen):
    k = type(pen).__name__
    d = {"kind": k}
    for a in ("alpha", "l1_ratio", "gamma", "eps", "positive"):
        if hasattr(pen, a):
            v = getattr(pen, a)
            d[a] = bool(v) if a == "positive" else float(v)
    for a in ("weights", "weights_groups", "weights_features", "alphas"):
        if hasattr(pen, a):
            d[a] = np.asarray(getattr(pen, a), dtype=float).tolist()
    for a in ("grp_ptr", "grp_indices"):
        if hasattr(pen, a):
            d[a] = np.asarray(getattr(pen, a)).astype(int).tolist()
    return d


def describe_datafit(df):
    if df is None:
        return {"kind": "Quadratic"}
    k = type(df).__name__
    d = {"kind": k}
    if hasattr(df, "sample_weights"):
        d["sample_weights"] = np.asarray(df.sample_weights, dtype=float).tolist()
    if hasattr(df, "delta"):
        d["delta"] = float(df.delta)
    if hasattr(df, "use_efron"):
        d["use_efron"] = bool(df.use_efron)
    if hasattr(df, "quantile_level"):
        d["quantile_level"] = float(df.quantile_level)
    for a in ("grp_ptr", "grp_indices"):
        if hasattr(df, a):
            d[a] = np.asarray(getattr(df, a)).astype(int).tolist()
    return d


# ------------------------------------------------------------------ return events of BaseSolver.solve
# (harness-side wrapper, no source change): lets AutoTracer close a trace whoever called solve
from skglm.solvers.base import BaseSolver as _BaseSolver  # noqa: E402

if not getattr(_BaseSolver.solve, "_verif_wrapped", False):
    _orig_solve = _BaseSolver.solve

    def _solve(self, X, y, datafit, penalty, w_init=None, Xw_init=None, *, run_checks=True):
        _verif.emit("solve_call", solver=self, X=X, y=y, datafit=datafit, penalty=penalty,
                    w_init=w_init, Xw_init=Xw_init)
        try:
            res = _orig_solve(self, X, y, datafit, penalty, w_init, Xw_init, run_checks=run_checks)
        except BaseException as e:  # noqa: BLE001
            _verif.emit("solve_raise", solver=self, exc=e)
            raise
        _verif.emit("solve_return", solver=self, res=res, w_init=w_init, Xw_init=Xw_init)
        return res
    _solve._verif_wrapped = True
    _BaseSolver.solve = _solve
