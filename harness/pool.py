"""Process pool for real-code runs. Work is partitioned by composition so that each numba
(kernel, datafit, penalty) triple is compiled once per worker."""
import os
import multiprocessing as mp
import traceback
from concurrent.futures import ProcessPoolExecutor, as_completed

NPROC = int(os.environ.get("VERIF_NPROC", "16"))


def _run_group(args):
    fn_mod, fn_name, items = args
    import importlib
    fn = getattr(importlib.import_module(fn_mod), fn_name)
    out = []
    for it in items:
        try:
            out.append(("ok", fn(*it)))
        except BaseException as e:  # noqa: BLE001
            out.append(("err", (it, type(e).__name__ + ": " + str(e), traceback.format_exc()[-1500:])))
    return out


def map_grouped(fn_mod, fn_name, items, key, nproc=None, chunk=12):
    """items: list of argument tuples; key(item) -> composition key. Returns (results, errors)."""
    nproc = nproc or NPROC
    groups = {}
    for it in items:
        groups.setdefault(key(it), []).append(it)
    tasks = []
    for k, its in groups.items():
        for i in range(0, len(its), chunk):
            tasks.append((fn_mod, fn_name, its[i:i + chunk]))
    tasks.sort(key=lambda t: -len(t[2]))
    results, errors = [], []
    ctx = mp.get_context("fork")
    with ProcessPoolExecutor(max_workers=min(nproc, max(1, len(tasks))), mp_context=ctx) as ex:
        futs = [ex.submit(_run_group, t) for t in tasks]
        for f in as_completed(futs):
            try:
                for st, val in f.result():
                    (results if st == "ok" else errors).append(val)
            except BaseException as e:  # noqa: BLE001  (worker died)
                errors.append((None, "worker died: " + repr(e), ""))
    return results, errors


# ---------------------------------------------------------------------------------------------
# isolated execution: a dead or hung worker is an observation (C13 interpreter_died / C19 terminates)
def _iso_worker(conn, fn_mod, fn_name, items):
    import importlib
    fn = getattr(importlib.import_module(fn_mod), fn_name)
    for idx, it in items:
        conn.send(("start", idx, None))
        try:
            conn.send(("ok", idx, fn(*it)))
        except BaseException as e:  # noqa: BLE001
            conn.send(("err", idx, type(e).__name__ + ": " + str(e)[:300] + "\n" + traceback.format_exc()[-1200:]))
    conn.send(("done", -1, None))
    conn.close()


def _cpu_seconds(pid):
    """CPU time (user + system, all threads) consumed so far by process pid; None when it cannot be read"""
    try:
        with open(f"/proc/{pid}/stat") as fh:
            f = fh.read().rsplit(")", 1)[1].split()
        return (int(f[11]) + int(f[12])) / os.sysconf("SC_CLK_TCK")
    except Exception:  # noqa: BLE001
        return None


def _expired(pid, t_start, cpu_start, timeout):
    import time
    wall = time.time() - t_start
    if wall <= timeout:
        return False
    now = _cpu_seconds(pid)
    if now is None or cpu_start is None:
        return wall > timeout
    return now - cpu_start > timeout or wall > 20 * timeout


def map_isolated(fn_mod, fn_name, items, key, nproc=None, chunk=10, timeout=180):
    """Like map_grouped, but every item's fate is known: result | ("died", item) | ("timeout", item).

    `timeout` is in CPU seconds of the worker on the current item (a busy non-terminating loop burns CPU; a loaded
    machine does not turn a slow run into a hang), with a wall-clock backstop of 20 x timeout for a blocked worker.
    Returns dict idx -> ("ok", value) | ("err", msg) | ("died", None) | ("timeout", None)."""
    import time
    nproc = nproc or NPROC
    groups = {}
    for idx, it in enumerate(items):
        groups.setdefault(key(it), []).append((idx, it))
    queue = []
    for k, its in groups.items():
        for i in range(0, len(its), chunk):
            queue.append(its[i:i + chunk])
    queue.sort(key=lambda c: -len(c))
    ctx = mp.get_context("fork")
    out = {}
    running = []      # [proc, conn, remaining(list), current_idx, t_start]
    while queue or running:
        while queue and len(running) < nproc:
            its = queue.pop(0)
            pc, cc = ctx.Pipe(duplex=False)
            p = ctx.Process(target=_iso_worker, args=(cc, fn_mod, fn_name, its))
            p.start()
            cc.close()
            running.append([p, pc, list(its), None, time.time(), None])
        time.sleep(0.05)
        for r in list(running):
            p, conn = r[0], r[1]
            finished = False
            try:
                while conn.poll():
                    st, idx, val = conn.recv()
                    if st == "start":
                        r[3], r[4] = idx, time.time()
                        r[5] = _cpu_seconds(p.pid)
                    elif st in ("ok", "err"):
                        out[idx] = (st, val)
                        r[2] = [x for x in r[2] if x[0] != idx]
                        r[3] = None
                    elif st == "done":
                        finished = True
            except (EOFError, OSError):
                finished = True
            alive = p.is_alive()
            if finished or not alive:
                p.join(timeout=1)
                if r[2]:
                    # died while running r[3] (or before starting the next one)
                    dead = r[3] if r[3] is not None else r[2][0][0]
                    out[dead] = ("died", None)
                    rest = [x for x in r[2] if x[0] != dead]
                    if rest:
                        queue.insert(0, rest)
                running.remove(r)
                conn.close()
            elif r[3] is not None and _expired(p.pid, r[4], r[5], timeout):
                p.kill()
                p.join(timeout=2)
                out[r[3]] = ("timeout", None)
                rest = [x for x in r[2] if x[0] != r[3]]
                if rest:
                    queue.insert(0, rest)
                running.remove(r)
                conn.close()
    return out
