"""Process pool for real-code runs. Work is partitioned by composition so that each numba
(kernel, datafit, penalty) triple is compiled once per worker."""
import os
import multiprocessing as mp
import traceback
from concurrent.futures import ProcessPoolExecutor, as_completed

NPROC = int(os.environ.get("VERIF_NPROC", "16"))


def _run_group(args):
    fn_mod, fn_name, items = args
    import importlib
    fn = getattr(importlib.import_module(fn_mod), fn_name)
    out = []
    for it in items:
        try:
            out.append(("ok", fn(*it)))
        except BaseException as e:  # noqa: BLE001
            out.append(("err", (it, type(e).__name__ + ": " + str(e), traceback.format_exc()[-1500:])))
    return out


def map_grouped(fn_mod, fn_name, items, key, nproc=None, chunk=12):
    """items: list of argument tuples; key(item) -> composition key. Returns (results, errors)."""
    nproc = nproc or NPROC
    groups = {}
    for it in items:
        groups.setdefault(key(it), []).append(it)
    tasks = []
    for k, its in groups.items():
        for i in range(0, len(its), chunk):
            tasks.append((fn_mod, fn_name, its[i:i + chunk]))
    tasks.sort(key=lambda t: -len(t[2]))
    results, errors = [], []
    ctx = mp.get_context("fork")
    with ProcessPoolExecutor(max_workers=min(nproc, max(1, len(tasks))), mp_context=ctx) as ex:
        futs = [ex.submit(_run_group, t) for t in tasks]
        for f in as_completed(futs):
            try:
                for st, val in f.result():
                    (results if st == "ok" else errors).append(val)
            except BaseException as e:  # noqa: BLE001  (worker died)
                errors.append((None, "worker died: " + repr(e), ""))
    return results, errors
