"""`verif setup`: everything is interpreted (Python, TLA+); setup only checks the tool chain."""
import subprocess
import sys


def main():
    ok = True
    try:
        out = subprocess.run(["java", "-cp", "/opt/veriftools/tla/tla2tools.jar", "tlc2.TLC", "-h"],
                             capture_output=True, text=True, timeout=60)
        print("TLC:", "ok" if "SYNOPSIS" in (out.stdout + out.stderr) or out.returncode in (0, 1) else "?")
    except Exception as e:  # noqa: BLE001
        print("TLC missing:", e)
        ok = False
    try:
        import numpy, scipy, numba, sklearn  # noqa: F401,E401
        print("python deps ok")
    except Exception as e:  # noqa: BLE001
        print("python deps missing:", e)
        ok = False
    return 0 if ok else 2
