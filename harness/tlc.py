"""Launch TLC the way that is fast in this sandbox and parse what it prints.

Recipe (measured, see DESIGN.md section 8): SerialGC, C1-only JIT, small heap, one
worker per JVM, several JVMs side by side instead of several workers.
"""
import json
import os
import re
import shutil
import subprocess
import tempfile
import time

JAR = "/opt/veriftools/tla/tla2tools.jar"
DEPS = "/opt/veriftools/tla/CommunityModules-deps.jar"
VERIF = os.path.dirname(os.path.dirname(os.path.abspath(__file__)))
SPECS = os.path.join(VERIF, "specs")
WORK = os.environ.get("VERIF_WORK", os.path.join(VERIF, ".work"))


class TLCError(RuntimeError):
    pass


def spec_dirs():
    out = []
    for root, dirs, files in os.walk(SPECS):
        if any(f.endswith(".tla") for f in files):
            out.append(root)
    return out


def _stage(workdir, spec_path, cfg_path):
    """Copy every .tla of /verif/specs flat into workdir (TLC resolves EXTENDS in cwd)."""
    for d in spec_dirs():
        for f in os.listdir(d):
            if f.endswith(".tla"):
                shutil.copy(os.path.join(d, f), os.path.join(workdir, f))
    dst = os.path.join(workdir, os.path.basename(cfg_path))
    if os.path.abspath(cfg_path) != os.path.abspath(dst):
        shutil.copy(cfg_path, dst)


def run(spec, cfg=None, *, env=None, workers=1, heap="800m", timeout=600, simulate=None,
        depth=None, seed=None, coverage=False, deadlock=False, extra=(), cfg_text=None,
        keep=False, tag=None, extra_files=None):
    """Run TLC on specs/**/<spec>.tla with config `cfg` (path or name next to the spec).

    Returns dict(rc, out, states, distinct, transitions?, violated, printed=[...json values],
    wall_s). Raises TLCError on parse/semantic errors or timeouts (machinery failure).
    """
    spec_path = None
    for d in spec_dirs():
        p = os.path.join(d, spec + ".tla")
        if os.path.exists(p):
            spec_path = p
    if spec_path is None and extra_files and spec + ".tla" in extra_files:
        spec_path = os.path.join(SPECS, "mc", spec + ".tla")      # generated wrapper module
    if spec_path is None:
        raise TLCError(f"spec {spec} not found")
    os.makedirs(WORK, exist_ok=True)
    workdir = tempfile.mkdtemp(prefix=f"tlc_{tag or spec}_", dir=WORK)
    if cfg_text is not None:
        cfg_path = os.path.join(workdir, "_gen_" + spec + ".cfg")
        with open(cfg_path, "w") as f:
            f.write(cfg_text)
    else:
        cfg_path = cfg if os.path.isabs(cfg or "") else os.path.join(
            os.path.dirname(spec_path), cfg or (spec + ".cfg"))
        if not os.path.exists(cfg_path):
            cfg_path = os.path.join(SPECS, "mc", cfg)
    _stage(workdir, spec_path, cfg_path)
    for name, text in (extra_files or {}).items():
        with open(os.path.join(workdir, name), "w") as f:
            f.write(text)
    if extra_files and spec + ".tla" in extra_files:
        spec_path = os.path.join(workdir, spec + ".tla")
    cmd = ["java", "-XX:+UseSerialGC", "-XX:TieredStopAtLevel=1", f"-Xmx{heap}", "-Xss16m",
           "-XX:-UsePerfData", "-cp", f"{JAR}:{DEPS}", "tlc2.TLC",
           "-workers", str(workers), "-noGenerateSpecTE", "-metadir",
           os.path.join(workdir, "states"), "-config", os.path.basename(cfg_path)]
    if not deadlock:
        cmd.append("-deadlock")  # TLC flag "-deadlock" DISABLES deadlock checking
    if simulate:
        cmd += ["-simulate", simulate]
    if depth:
        cmd += ["-depth", str(depth)]
    if seed is not None:
        cmd += ["-seed", str(seed)]
    if coverage:
        cmd += ["-coverage", "1"]
    cmd += list(extra)
    cmd.append(spec + ".tla")
    e = dict(os.environ)
    e.pop("JAVA_TOOL_OPTIONS", None)
    if env:
        e.update({k: str(v) for k, v in env.items()})
    t0 = time.time()
    # the limits in the callers are sized for an idle machine; a loaded one (several checks side by side) must
    # not turn a slow TLC run into a machinery failure
    timeout = timeout * float(os.environ.get("VERIF_TIMEOUT_FACTOR", "4"))
    try:
        p = subprocess.run(cmd, cwd=workdir, env=e, capture_output=True, text=True,
                           timeout=timeout)
    except subprocess.TimeoutExpired as ex:
        raise TLCError(f"TLC timeout after {timeout}s on {spec}") from ex
    wall = time.time() - t0
    out = p.stdout + p.stderr
    res = parse(out)
    res.update(rc=p.returncode, out=out, wall_s=wall, workdir=workdir, cmd=" ".join(cmd))
    if res["error"]:
        lines = out.splitlines()
        idx = [i for i, ln in enumerate(lines) if ln.startswith("Error") or "Exception" in ln]
        if idx:
            tail = "\n".join(lines[max(0, idx[0] - 3): idx[0] + 25])
        else:
            tail = "\n".join(lines[-40:])
        raise TLCError(f"TLC failed on {spec} ({cfg_path}):\n{tail}")
    if not keep:
        shutil.rmtree(workdir, ignore_errors=True)
    return res


_RE_STATES = re.compile(r"(\d+) states generated, (\d+) distinct states found")
_RE_VIOL = re.compile(r"Error: Invariant (\S+) is violated|Error: Action property (\S+) is violated"
                      r"|Error: Temporal properties were violated")


def parse(out):
    states = distinct = 0
    for m in _RE_STATES.finditer(out):
        states, distinct = int(m.group(1)), int(m.group(2))
    violated = []
    for m in _RE_VIOL.finditer(out):
        violated.append(m.group(1) or m.group(2) or "temporal")
    error = False
    for line in out.splitlines():
        if line.startswith("Error:") and not _RE_VIOL.match(line) and \
                "The behavior up to this point" not in line and \
                "The following behavior constitutes a counter-example" not in line:
            error = True
        if "Parsing or semantic analysis failed" in line or "*** Errors:" in line:
            error = True
    if "Finished computing initial states" not in out and "Model checking completed" not in out \
            and "Running Random Simulation" not in out and not violated:
        error = True
    printed = []
    for line in out.splitlines():
        line = line.strip()
        if line.startswith('"') and line.endswith('"') and len(line) > 1:
            # PrintT of a ToJson string: TLC prints it quoted with escapes
            try:
                s = json.loads(line)
                printed.append(json.loads(s))
            except Exception:
                pass
    cov = {}
    for m in re.finditer(r"<(\w+) line \d+, col \d+ to line \d+, col \d+ of module (\w+)>: (\d+):(\d+)",
                         out):
        cov[m.group(1)] = cov.get(m.group(1), 0) + int(m.group(4))
    return dict(states=states, distinct=distinct, transitions=states, violated=violated,
                error=error, printed=printed, action_coverage=cov,
                trace=extract_trace(out))


def extract_trace(out):
    """Counterexample states as list of (action label, {var: text})."""
    tr = []
    cur = None
    for line in out.splitlines():
        m = re.match(r"State (\d+): <(.*)>", line)
        if m:
            cur = (m.group(2), {})
            tr.append(cur)
            continue
        if cur is not None:
            m2 = re.match(r"/\\ (\w+) = (.*)", line)
            if m2:
                cur[1][m2.group(1)] = m2.group(2)
            elif line.strip() == "" or line.startswith("Error") or re.match(r"\d+ states", line):
                cur = None if not line.strip() == "" else cur
    return tr


def run_many(jobs, parallel=6):
    """jobs: list of kwargs for run(). Runs at most `parallel` JVMs at once."""
    from concurrent.futures import ThreadPoolExecutor
    with ThreadPoolExecutor(max_workers=parallel) as ex:
        futs = [ex.submit(lambda kw=kw: run(**kw)) for kw in jobs]
        return [f.result() for f in futs]


def apalache(spec, init, inv, length, timeout=300):
    """apalache-mc check --init --inv --length on specs/**/<spec>.tla (staged copy). Returns "NoError" | "Error";
    raises TLCError when Apalache cannot run, does not finish or reports anything else."""
    if shutil.which("apalache-mc") is None:
        raise TLCError("apalache-mc not on PATH")
    os.makedirs(WORK, exist_ok=True)
    workdir = tempfile.mkdtemp(prefix="apa-", dir=WORK)
    try:
        for d in spec_dirs():
            for f in os.listdir(d):
                if f.endswith(".tla"):
                    shutil.copy(os.path.join(d, f), os.path.join(workdir, f))
        t0 = time.time()
        try:
            pr = subprocess.run(["apalache-mc", "check", f"--init={init}", f"--inv={inv}", f"--length={length}",
                                 f"--out-dir={workdir}/out", f"--run-dir={workdir}/run", spec + ".tla"], cwd=workdir,
                                capture_output=True, text=True,
                                timeout=timeout * float(os.environ.get("VERIF_TIMEOUT_FACTOR", "4")))
        except subprocess.TimeoutExpired:
            raise TLCError(f"apalache {spec} {inv}: no answer within the time limit")
        m = re.search(r"The outcome is: (\w+)", pr.stdout)
        if not m or m.group(1) not in ("NoError", "Error"):
            raise TLCError(f"apalache {spec} {inv}: {pr.stdout[-1500:]} {pr.stderr[-500:]}")
        return dict(outcome=m.group(1), wall_s=round(time.time() - t0, 1))
    finally:
        shutil.rmtree(workdir, ignore_errors=True)
