"""Helpers to build fact traces for specs/trace/RelTrace.tla and judge them with TLC."""
import math
from . import monitor


class Facts:
    """One scenario's facts. Floats are rank-encoded per trace by harness/ranks.py."""

    def __init__(self, tid, meta):
        self.id = tid
        self.meta = meta
        self.events = []

    def le(self, c, a, b, when=True):
        self.events.append(dict(e="le", c=c, a=float(a), b=float(b), when=int(bool(when))))

    def lt(self, c, a, b, when=True):
        self.events.append(dict(e="lt", c=c, a=float(a), b=float(b), when=int(bool(when))))

    def band(self, c, x, lo, hi, when=True):
        self.events.append(dict(e="band", c=c, x=float(x), lo=float(lo), hi=float(hi),
                                when=int(bool(when))))

    def approx(self, c, x, ref, abs_tol, rel_tol=0.0, when=True):
        x, ref = float(x), float(ref)
        if math.isfinite(ref):
            e = abs_tol + rel_tol * abs(ref)
            self.band(c, x, ref - e, ref + e, when)
        else:
            self.eq(c, x, ref, when)

    def eq(self, c, a, b, when=True):
        self.events.append(dict(e="eq", c=c, a=float(a), b=float(b), when=int(bool(when))))

    def flag(self, c, ok, when=True):
        self.events.append(dict(e="flag", c=c, ok=int(bool(ok)), when=int(bool(when))))

    def trace(self):
        return dict(id=self.id, meta=self.meta, events=self.events)


def judge(traces, parallel=4):
    """traces: list of Facts.trace() dicts -> monitor.Verdicts"""
    return monitor.validate(traces, spec="RelTrace", cfg="RelTrace.cfg", keep_top=(),
                            parallel=parallel)
