"""Batch trace validation: traces -> rank encoding -> TLC (a trace spec) -> one verdict per trace."""
import json
import os
import tempfile

from . import ranks, tlc

MAX_BATCH_EVENTS = 40000
BATCH = 2500


class Verdicts:
    def __init__(self):
        self.by_id = {}          # id -> list of (clause, position)
        self.states = 0
        self.transitions = 0
        self.tlc_runs = 0
        self.tlc_wall = 0.0
        self.action_coverage = {}

    def bad(self, tid):
        return self.by_id[tid]


def _strip(tr, keep_top):
    out = {k: tr[k] for k in keep_top if k in tr}
    out["id"] = tr["id"]
    out["events"] = tr["events"]
    return out


def validate(traces, spec="SolverTrace", cfg="SolverTrace.cfg", keep_top=("tol", "descent",
             "haswouter", "cert", "critval"), encode=True, coverage=False, parallel=4, timeout=900):
    """traces: list of dicts with unique integer 'id' and 'events'. Returns Verdicts.

    Raises tlc.TLCError (machinery failure) if a trace gets no verdict or does not end."""
    v = Verdicts()
    if not traces:
        return v
    os.makedirs(tlc.WORK, exist_ok=True)
    jobs = []
    files = []
    # batches are bounded by trace count AND by total event count (the JSON of a batch is read into the TLC heap)
    chunks, cur, nev = [], [], 0
    for tr in traces:
        ne = len(tr["events"])
        if cur and (len(cur) >= BATCH or nev + ne > MAX_BATCH_EVENTS):
            chunks.append(cur)
            cur, nev = [], 0
        cur.append(tr)
        nev += ne
    if cur:
        chunks.append(cur)
    for chunk in chunks:
        enc = []
        for tr in chunk:
            t2 = ranks.encode_trace(tr) if encode else tr
            enc.append(_strip(t2, keep_top))
        fd, path = tempfile.mkstemp(prefix="batch_", suffix=".json", dir=tlc.WORK)
        with os.fdopen(fd, "w") as f:
            json.dump({"traces": enc}, f)
        files.append((path, chunk))
        jobs.append(dict(spec=spec, cfg=cfg, env={"TRACE_FILE": path}, coverage=coverage,
                         timeout=timeout, tag=spec))
    results = tlc.run_many(jobs, parallel=parallel)
    for (path, chunk), res in zip(files, results):
        if res["violated"]:
            raise tlc.TLCError(f"monitor invariant violated {res['violated']} on {path}")
        v.states += res["distinct"]
        v.transitions += res["states"]
        v.tlc_runs += 1
        v.tlc_wall += res["wall_s"]
        for a, c in res["action_coverage"].items():
            v.action_coverage[a] = v.action_coverage.get(a, 0) + c
        got = {}
        for pr in res["printed"]:
            if isinstance(pr, dict) and pr.get("v") == 1:
                got[pr["id"]] = pr
        for tr in chunk:
            pr = got.get(tr["id"])
            if pr is None:
                raise tlc.TLCError(f"no verdict for trace {tr['id']} in {path}")
            if pr["n"] != len(tr["events"]):
                raise tlc.TLCError(f"verdict length mismatch for trace {tr['id']}")
            v.by_id[tr["id"]] = sorted((b[0], b[1]) for b in pr["bad"])
        os.unlink(path)
    return v
