"""The composition matrix solver x strategy x datafit x penalty x storage (C13, C20, C10).

Catalogue of descriptors on a 12 x 6 problem, introspection of the working tree's attribute tables,
and the runner that executes one cell and reports facts."""
import json
import re
import numpy as np
from scipy import sparse

from . import gen
from .oracle import penalties as OP

SOLVERS = ["AndersonCD", "GroupBCD", "MultiTaskBCD", "ProxNewton", "GroupProxNewton", "GramCD", "FISTA",
           "LBFGS", "PDCD_WS"]
HAS_STRATEGY = {"AndersonCD": "ws_strategy", "GroupBCD": "ws_strategy", "MultiTaskBCD": "ws_strategy",
                "ProxNewton": "ws_strategy", "FISTA": "opt_strategy"}
HAS_INTERCEPT = {"AndersonCD", "GroupBCD", "MultiTaskBCD", "ProxNewton", "GroupProxNewton"}
DATAFITS = ["None", "Quadratic", "WeightedQuadratic", "Logistic", "QuadraticSVC", "Huber", "Poisson",
            "Gamma", "Cox", "QuadraticGroup", "LogisticGroup", "QuadraticMultiTask", "SqrtQuadratic",
            "Pinball"]
PENALTIES = ["L1", "L1_plus_L2", "WeightedL1", "MCPenalty", "WeightedMCPenalty", "SCAD", "IndicatorBox",
             "L0_5", "L2_3", "LogSumPenalty", "PositiveConstraint", "L2", "L2_1", "L2_05",
             "BlockMCPenalty", "BlockSCAD", "WeightedGroupL2", "WeightedL1GroupL2", "SLOPE"]
ATTRS = ["get_lipschitz", "get_lipschitz_sparse", "gradient_scalar", "gradient_scalar_sparse",
         "gradient_g", "gradient_g_sparse", "gradient_j", "gradient_j_sparse", "gradient",
         "gradient_sparse", "full_grad_sparse", "raw_grad", "raw_hessian", "get_global_lipschitz",
         "get_global_lipschitz_sparse", "initialize", "initialize_sparse", "value",
         "intercept_update_step", "prox_conjugate", "prox", "grp_ptr", "grp_indices", "prox_1d",
         "prox_1group", "prox_1feat", "prox_vec", "subdiff_distance", "is_penalized",
         "generalized_support", "alpha_max", "derivative"]
N, P = 12, 6
GRP = ([0, 2, 4, 6], [0, 1, 2, 3, 4, 5])


def datafit_desc(d, rng=None):
    if d == "None":
        return None
    if d == "WeightedQuadratic":
        return {"kind": d, "sample_weights": [1.0, 2.0, 0.5, 1.0, 0.0, 1.5, 1.0, 1.0, 2.0, 0.5, 1.0, 1.0]}
    if d == "Huber":
        return {"kind": d, "delta": 0.8}
    if d == "Cox":
        return {"kind": d, "use_efron": False}
    if d in ("QuadraticGroup", "LogisticGroup"):
        return {"kind": d, "grp_ptr": GRP[0], "grp_indices": GRP[1]}
    if d == "Pinball":
        return {"kind": d, "quantile_level": 0.3}
    return {"kind": d}


def penalty_desc(p, alpha=0.05, nfeat=P):
    w = [1.0, 0.5, 0.0, 2.0, 1.0, 1.5] * (nfeat // 6 + 1)
    w = w[:nfeat]
    if p in ("L1", "L0_5", "L2_3", "L2", "L2_1", "L2_05"):
        d = {"kind": p, "alpha": alpha}
        if p == "L1":
            d["positive"] = False
        return d
    if p == "L1_plus_L2":
        return {"kind": p, "alpha": alpha, "l1_ratio": 0.5, "positive": False}
    if p == "WeightedL1":
        return {"kind": p, "alpha": alpha, "weights": w, "positive": False}
    if p == "MCPenalty":
        return {"kind": p, "alpha": alpha, "gamma": 8.0, "positive": False}
    if p == "WeightedMCPenalty":
        return {"kind": p, "alpha": alpha, "gamma": 8.0, "weights": w, "positive": False}
    if p == "SCAD":
        return {"kind": p, "alpha": alpha, "gamma": 9.0}
    if p in ("BlockMCPenalty", "BlockSCAD"):
        return {"kind": p, "alpha": alpha, "gamma": 9.0}
    if p == "IndicatorBox":
        return {"kind": p, "alpha": 1.0}
    if p == "LogSumPenalty":
        return {"kind": p, "alpha": alpha, "eps": 0.5}
    if p == "PositiveConstraint":
        return {"kind": p}
    if p == "WeightedGroupL2":
        return {"kind": p, "alpha": alpha, "weights": [1.0, 0.5, 2.0], "grp_ptr": GRP[0],
                "grp_indices": GRP[1], "positive": False}
    if p == "WeightedL1GroupL2":
        return {"kind": p, "alpha": alpha, "weights_groups": [1.0, 0.5, 2.0],
                "weights_features": [0.3, 1.0, 0.0, 0.7, 1.2, 0.5], "grp_ptr": GRP[0], "grp_indices": GRP[1]}
    if p == "SLOPE":
        return {"kind": p, "alphas": (alpha * np.linspace(1.0, 0.2, nfeat)).tolist()}
    raise KeyError(p)


def data_for(d, seed, storage):
    rng = gen.rng_for(seed, "cell", d)
    X = gen.design(rng, N, P, rho=0.5, density=0.6 if storage != "dense" else 1.0)
    if d in ("Logistic", "LogisticGroup", "QuadraticSVC"):
        y = gen.target(rng, X, "clf")
        # two identical samples with opposite labels: the classes are not separable, so the
        # (possibly unpenalised) problem has a finite minimiser
        X[1] = X[0]
        y[0], y[1] = 1.0, -1.0
    elif d == "Poisson":
        y = gen.target(rng, X, "count")
    elif d == "Gamma":
        y = gen.target(rng, X, "pos")
    elif d == "Cox":
        y = gen.target(rng, X, "surv")
    elif d == "QuadraticMultiTask":
        y = gen.target(rng, X, "reg", n_tasks=2)
    else:
        y = gen.target(rng, X, "reg", offset=0.5)
    return X, y


def introspect():
    """Attribute tables of compiled datafits / penalties of the CURRENT working tree."""
    from . import skl
    has = {"None": []}
    for d in DATAFITS[1:]:
        obj = skl.datafit(datafit_desc(d))
        has[d] = [a for a in ATTRS if hasattr(obj, a)]
    for p in PENALTIES:
        obj = skl.penalty(penalty_desc(p))
        has[p] = [a for a in ATTRS if hasattr(obj, a)]
    return has


def all_cells():
    cells = []
    n = 0
    for s in SOLVERS:
        for ws in ("subdiff", "fixpoint"):
            for d in DATAFITS:
                for p in PENALTIES:
                    for sp in (False, True):
                        for fi in ((False, True) if s in HAS_INTERCEPT else (False,)):
                            n += 1
                            cells.append(dict(id=n, s=s, ws=ws, d=d, p=p, sp=sp, fi=fi))
    return cells


def real_validate(cells, seed=1):
    """verdict of the real solver._validate for every cell (one process: no kernel is compiled)."""
    from . import skl
    objs = {}
    for d in DATAFITS[1:]:
        objs[d] = skl.datafit(datafit_desc(d))
    objs["None"] = None
    for p in PENALTIES:
        objs[p] = skl.penalty(penalty_desc(p))
    Xd = {}
    out = {}
    for c in cells:
        key = (c["d"], c["sp"])
        if key not in Xd:
            X, y = data_for(c["d"], seed, "csc" if c["sp"] else "dense")
            Xd[key] = (sparse.csc_matrix(X) if c["sp"] else X, y)
        X, y = Xd[key]
        slv = make_solver(c, 1e-6)
        try:
            slv._validate(X, y, objs[c["d"]], objs[c["p"]])
            out[c["id"]] = ("accept", "")
        except Exception as e:  # noqa: BLE001
            out[c["id"]] = (type(e).__name__, str(e))
    return out


def make_solver(c, tol, max_iter=None, max_epochs=None):
    from . import skl
    s = c["s"]
    kw = dict(tol=tol)
    if s in HAS_STRATEGY:
        kw[HAS_STRATEGY[s]] = c["ws"]
    if s in HAS_INTERCEPT:
        kw["fit_intercept"] = bool(c["fi"])
    if max_iter is not None:
        kw["max_iter"] = max_iter
    if max_epochs is not None and s in ("AndersonCD", "GroupBCD", "MultiTaskBCD", "PDCD_WS"):
        kw["max_epochs"] = max_epochs
    return skl.solver(s, **kw)


VOCAB = ("block-separable", "sparse", "must be `none`", "positive values", "should be of size",
         "w.shape[0]", "smallresidual", "unsupported value", "ws_strategy", "optimality strategy")


def explained(exc, objs_missing):
    """AttributeError/ValueError whose message names a method the objects really lack, or a structure."""
    if type(exc).__name__ not in ("AttributeError", "ValueError"):
        return False
    msg = str(exc)
    if not msg.strip():
        return False
    low = msg.lower()
    if "broadcast" in low or "nopython" in low or "numba" in low:
        return False
    names = set(re.findall(r"[`']([A-Za-z_][A-Za-z_0-9]*)[`']", msg))
    if any(objs_missing(nm) for nm in names):
        return True
    return any(v in low for v in VOCAB)


def run_cell(c, seed, tol_frac=1e-5, budget=None):
    """Execute one cell. Returns dict(meta=..., outcome=..., trace=SolverTrace dict | None)."""
    from . import skl, tracer as TR
    from .oracle import problem as PB
    X, y = data_for(c["d"], seed, "csc" if c["sp"] else "dense")
    dfd = datafit_desc(c["d"])
    Xo = X
    if c["d"] == "QuadraticSVC":
        Xo = np.asfortranarray((X * y[:, None]).T)
    nfeat = Xo.shape[1]
    pend = penalty_desc(c["p"], nfeat=nfeat)
    if "grp_ptr" in pend and nfeat != P:
        pend = None
    meta = dict(solver=c["s"], strategy=c["ws"], datafit=c["d"], penalty=c["p"],
                storage="csc" if c["sp"] else "dense", fit_intercept=bool(c["fi"]), cell=c["id"])
    out = dict(meta=meta, outcome=None, exc_type=None, exc_msg=None, explained=None, trace=None)
    try:
        df = None if dfd is None else skl.datafit(dfd)
        pen = skl.penalty(pend if pend is not None else penalty_desc(c["p"]))
    except Exception as e:  # noqa: BLE001
        out.update(outcome="construct_error", exc_type=type(e).__name__, exc_msg=str(e)[:300])
        return out
    Xs = sparse.csc_matrix(Xo) if c["sp"] else Xo

    def missing(name):
        for o in (df, pen):
            if o is not None and not hasattr(o, name):
                return True
        return df is None and name in ("datafit",)
    # datafit initialised on the data, as the documented examples do
    try:
        if df is not None:
            if c["sp"] and hasattr(df, "initialize_sparse"):
                df.initialize_sparse(Xs.data, Xs.indptr, Xs.indices, y)
            elif hasattr(df, "initialize"):
                df.initialize(Xo, y)
    except Exception as e:  # noqa: BLE001
        out["init_exc"] = type(e).__name__ + ": " + str(e)[:200]
    prob = None
    scale = 1.0
    if dfd is not None or c["s"] == "GramCD":
        prob = dict(X=Xo, y=y, datafit=dfd or {"kind": "Quadratic"}, penalty=pend or penalty_desc(c["p"]),
                    fit_intercept=bool(c["fi"]) and c["s"] in HAS_INTERCEPT)
        try:
            scale = PB.null_scale(prob)
        except Exception:  # noqa: BLE001
            scale = 1.0
    tol = tol_frac * scale
    kw = budget or {}
    slv = make_solver(c, tol, **kw)
    try:
        slv._validate(Xs, y, df, pen)
    except Exception as e:  # noqa: BLE001
        out.update(outcome="refused", exc_type=type(e).__name__, exc_msg=str(e)[:400],
                   explained=explained(e, missing))
        return out
    tr = TR.Tracer(prob, tol, strategy=c["ws"] if c["s"] in HAS_STRATEGY else "subdiff",
                   family="pn" if c["s"] == "ProxNewton" else "cd", meta=meta)
    res, exc = skl.run_traced(tr, slv, Xs, y, df, pen)
    if exc is not None:
        out.update(outcome="raised", exc_type=type(exc).__name__, exc_msg=str(exc)[:400],
                   explained=explained(exc, missing))
    else:
        out["outcome"] = "solved"
        out["result_w"] = np.asarray(res[0], dtype=float).tolist()
        out["stop_crit"] = float(res[2])
        out["tol"] = float(tol)
        if c["s"] == "FISTA" and dfd is not None:
            # FISTA is outside the strict certificate (its stopping value is known to lag by a bounded factor), but
            # a run that claims convergence still has to be NEAR a stationary point: violation within 64 x the bound
            try:
                # (judged in the subdifferential metric: a fixed point of the prox-gradient map is a critical point
                #  whatever the step, while the residual itself depends on FISTA's global step)
                v = PB.violation(prob, np.asarray(res[0], dtype=float), "subdiff")[0]
                out["fista_viol"] = float(v)
                out["fista_bound"] = 64.0 * PB.vbound(tol, scale)
            except Exception:  # noqa: BLE001
                pass
    t = tr.trace(c["id"])
    t.update(descent=0, cert=int(c["s"] not in ("FISTA", "PDCD_WS") and dfd is not None or c["s"] == "GramCD"),
             critval=0, haswouter=int(c["s"] != "LBFGS"))
    if c["s"] in ("ProxNewton", "GroupProxNewton") and c["ws"] == "fixpoint" and pend is not None \
            and not OP.is_convex(pend):
        t["cert"] = 0          # prox-Newton steps leave the well-posed range of a non-convex prox (see scen.build)
    if pend is not None and pend["kind"] == "SLOPE":
        t["cert"] = 0
    out["trace"] = t
    return out
