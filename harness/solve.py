"""Run a solver or an estimator on a concrete problem and describe the result with the oracle.
Shared by the relation checks (C02, C10, C11, C14, C15, C16)."""
import warnings

import numpy as np
from scipy import sparse

from .oracle import problem as PB
from .oracle import penalties as OP


def as_rep(X, container, dtype="f64"):
    """X (dense float64 ndarray) in the requested container / dtype."""
    dt = {"f64": np.float64, "f32": np.float32, "i64": np.int64}[dtype]
    if container == "ndarray_F":
        return np.asfortranarray(X.astype(dt))
    if container == "ndarray_C":
        return np.ascontiguousarray(X.astype(dt))
    if container == "list":
        return X.tolist()
    if container == "csc":
        return sparse.csc_matrix(X.astype(dt))
    if container == "csr":
        return sparse.csr_matrix(X.astype(dt))
    if container == "coo":
        return sparse.coo_matrix(X.astype(dt))
    if container == "csc_explicit_zeros":
        # a valid CSC matrix that STORES its zeros (what X.multiply(mask) or zeroing X.data in place leave behind)
        Xd = np.asarray(X.astype(dt))
        n, p_ = Xd.shape
        return sparse.csc_matrix((Xd.ravel(order="F").copy(), np.tile(np.arange(n, dtype=np.int32), p_),
                                  np.arange(0, n * p_ + 1, n, dtype=np.int32)), shape=(n, p_))
    if container == "csc_idx64":
        A = sparse.csc_matrix(X.astype(dt))
        return sparse.csc_matrix((A.data, A.indices.astype(np.int64), A.indptr.astype(np.int64)), shape=A.shape)
    if container == "csc_unsorted":
        A = sparse.csc_matrix(X.astype(dt))
        data, ind = A.data.copy(), A.indices.copy()
        for j in range(A.shape[1]):
            lo, hi = A.indptr[j], A.indptr[j + 1]
            data[lo:hi] = data[lo:hi][::-1]
            ind[lo:hi] = ind[lo:hi][::-1]
        B = sparse.csc_matrix((data, ind, A.indptr.copy()), shape=A.shape)
        B.has_sorted_indices = False
        return B
    raise KeyError(container)


def run_solver(name, X, y, dfd, pend, fit_intercept=False, tol=1e-8, w_init=None, init_datafit=True,
               Xw_init=None, **kw):
    """-> dict(w, crit, n_iter, exc). X may be any container."""
    from . import skl
    df = None if dfd is None else skl.datafit(dfd)
    pen = skl.penalty(pend)
    k = dict(tol=tol)
    if name in ("AndersonCD", "ProxNewton", "GroupBCD", "GroupProxNewton", "MultiTaskBCD"):
        k["fit_intercept"] = fit_intercept
    k.update(kw)
    slv = skl.solver(name, **k)
    out = dict(w=None, crit=None, n_iter=None, exc=None)
    try:
        with warnings.catch_warnings():
            warnings.simplefilter("ignore")
            if df is not None and init_datafit and hasattr(df, "initialize"):
                if sparse.issparse(X) and hasattr(X, "indptr") and hasattr(df, "initialize_sparse"):
                    df.initialize_sparse(X.data, X.indptr, X.indices, y)
                elif not sparse.issparse(X):
                    df.initialize(np.asarray(X), y)
            res = slv.solve(X, y, df, pen, w_init, Xw_init)
        out.update(w=np.array(res[0], dtype=float), crit=float(np.max(res[2])), n_iter=len(res[1]))
    except BaseException as e:  # noqa: BLE001
        if isinstance(e, (KeyboardInterrupt, SystemExit)):
            raise
        out["exc"] = (type(e).__name__, str(e)[:300])
    return out


def describe(prob, w, strategy="subdiff"):
    """oracle objective and violation of coefficients w for problem prob"""
    if w is None:
        return dict(obj=float("nan"), viol=float("nan"))
    try:
        obj = PB.objective(prob, w)
    except Exception:  # noqa: BLE001
        obj = float("nan")
    try:
        viol = PB.violation(prob, w, strategy)[0]
    except Exception:  # noqa: BLE001
        viol = float("nan")
    return dict(obj=obj, viol=viol)


def strong_convexity(prob, w):
    """smallest eigenvalue of the Hessian restricted to the support (+ intercept): > 0 => unique minimiser"""
    from .oracle import datafits as OD
    X = prob["X"]
    wv, b = PB.split(prob, w)
    z = X @ wv + b
    h = OD.raw_hess_diag(prob["datafit"], prob["y"], z)
    if h is None or wv.ndim != 1:
        return None
    supp = np.flatnonzero(wv != 0)
    cols = [X[:, j] for j in supp]
    if prob["fit_intercept"]:
        cols.append(np.ones(X.shape[0]))
    if not cols:
        return None
    A = np.column_stack(cols)
    H = A.T @ (h[:, None] * A)
    if prob["penalty"]["kind"] == "L1_plus_L2":
        k = len(supp)
        H[:k, :k] += np.eye(k) * prob["penalty"]["alpha"] * (1 - prob["penalty"]["l1_ratio"])
    return float(np.linalg.eigvalsh(H)[0])
