"""`verif replay <path>`: re-execute the scenario of a replay file on the current tree and print
the verdict of the same clause."""
import json
import sys


def main(path):
    rp = json.load(open(path))
    kind = rp.get("kind")
    if kind == "solver_scenario":
        from . import scen, monitor
        sc = dict(rp["scenario"])
        tr = scen.run(sc, rp["seed"], 1)
        v = monitor.validate([tr])
        bad = v.bad(1)
        print("scenario:", json.dumps(sc))
        print("verdict:", bad)
        hit = [c for c, _ in bad if c == rp["clause"]]
        if hit:
            print(f"REPRODUCED clause={rp['clause']} property={rp['property']}")
            return 1
        print("not reproduced on the current tree")
        return 0
    mod = rp.get("replay_module")
    if mod:
        import importlib
        return importlib.import_module(mod).replay(rp)
    print("unknown replay kind", kind)
    return 2
