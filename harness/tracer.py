"""Turn hook events of one solve into a trace for specs/trace/SolverTrace.tla.

Hooks log state (references to live arrays). At each event the tracer copies what it needs and
asks the ORACLE (harness/oracle, no skglm) for: true objective at (w, X w + b), true first-order
violation, consistency of the solver's Xw buffer, feasibility, finiteness. The code's own numbers
(stopping values, recorded objectives) are logged next to them. Nothing here decides a property:
TLC does, from the rank-encoded trace (harness/ranks.py).
"""
import numpy as np
from scipy import sparse

from .oracle import problem as PB
from .oracle import penalties as OP
from .oracle import datafits as OD

MAX_EVENTS = 1500
INPLACE_SOLVERS = ("AndersonCD", "GroupBCD", "MultiTaskBCD", "ProxNewton", "GroupProxNewton", "PDCD_WS")


def _explanatory(exc):
    """An explanatory ValueError: a message in plain words, not one leaked from compiled code."""
    if type(exc).__name__ != "ValueError":
        return False
    msg = str(exc).strip()
    low = msg.lower()
    if len(msg) < 12 or "broadcast" in low or "nopython" in low or "numba" in low or "shape" in low and "mismatch" in low:
        return False
    return True


class Tracer:
    def __init__(self, prob, tol, strategy="subdiff", family="cd", meta=None, keep_arrays=False):
        self.prob = prob
        self.tol = float(tol)
        self.strategy = strategy
        self.family = family
        self.meta = dict(meta or {})
        self.scale = PB.null_scale(prob)
        self.events = []
        self._digs = {}
        self.n_dropped = 0
        self.first_w = None
        self.keep_arrays = keep_arrays
        self.arrays = []
        self._winit_id = None
        self._call = None

    # ------------------------------------------------------------------ oracle on a state
    def _dig(self, w):
        key = np.ascontiguousarray(np.asarray(w, dtype=float)).tobytes()
        if key not in self._digs:
            self._digs[key] = len(self._digs) + 1
        return self._digs[key]

    def _state(self, w, Xw, grad=None):
        prob = self.prob
        w = np.array(w, dtype=float, copy=True)
        fin = bool(np.all(np.isfinite(w)))
        out = {"dig": self._dig(w)}
        wv, b = PB.split(prob, w)
        if fin:
            z = prob["X"] @ wv + b
            try:
                obj = PB.objective(prob, w, z)
            except Exception:
                obj = float("nan")
        else:
            z = None
            obj = float("nan")
        delta = 0.0
        znorm = 1.0
        bobj = obj
        if z is not None and Xw is not None:
            Xwb = np.array(Xw, dtype=float, copy=True)
            fin = fin and bool(np.all(np.isfinite(Xwb)))
            if Xwb.shape == z.shape:
                delta = float(np.max(np.abs(Xwb - z))) if z.size else 0.0
                znorm = float(np.max(np.abs(z))) if z.size else 1.0
                try:
                    bobj = OD.loss(prob["datafit"], prob["y"], Xwb, w=wv) + OP.value(
                        prob["penalty"], wv)
                except Exception:
                    bobj = float("nan")
            else:
                delta = float("inf")
        elif z is not None and grad is not None:
            g, _ = PB.gradients(prob, w, z)
            gb = np.array(grad, dtype=float, copy=True)
            delta = float(np.max(np.abs(gb - g))) if g.size else 0.0
            znorm = float(np.max(np.abs(g))) if g.size else 1.0
        if not np.isfinite(delta):
            cons = 0
        else:
            cons = int(PB.cons_ok(delta, znorm))
        n = prob["X"].shape[0]
        if z is not None and np.isfinite(obj):
            try:
                rg = OD.raw_grad(prob["datafit"], prob["y"], z)
                rg_inf = float(np.max(np.abs(rg)))
            except Exception:
                rg_inf = 1.0
        else:
            rg_inf = 1.0
        slack = PB.descent_slack(obj, delta if np.isfinite(delta) else 1.0, n, rg_inf)
        out.update(obj=obj, obj_lb=obj - slack if np.isfinite(obj) else obj,
                   bobj=bobj, bobj_lb=(bobj - slack) if np.isfinite(bobj) else bobj,
                   cons=cons, feas=int(OP.feasible(prob["penalty"], wv)), fin=int(fin),
                   delta=delta)
        if self.keep_arrays:
            self.arrays.append((len(self.events), w, None if Xw is None else np.array(Xw)))
        return out, w

    def _viol(self, w):
        try:
            v, d, ib = PB.violation(self.prob, w, self.strategy, self.family)
        except Exception:
            self._vparts = (float("nan"), float("nan"))
            return float("nan")
        self._vparts = (float(max(d)) if len(d) else 0.0, ib)
        return v

    # ------------------------------------------------------------------ sink
    def sink(self, kind, f):
        if kind in ("epoch", "aa", "inner") and len(self.events) >= MAX_EVENTS:
            self.n_dropped += 1
            return
        h = getattr(self, "_on_" + kind, None)
        if h is not None:
            h(f)

    def call(self, slv, X, y, w_init, Xw_init):
        self._call = dict(w_init=w_init, Xw_init=Xw_init)
        # solvers whose update of a null column is an exact proximal minimisation (one epoch zeroes it);
        # FISTA / LBFGS only shrink it step by step
        self.zc_strict = int(type(slv).__name__ not in ("FISTA", "LBFGS"))
        self.solver_name = type(slv).__name__

    def _zero_cols_zero(self, wc):
        """1 iff every penalised coefficient (group, row) of an all-zero column (group) is exactly zero (C19)"""
        zc = 1
        try:
            X = self.prob["X"]
            wv, _b = PB.split(self.prob, wc)
            zero_cols = ~np.any(X != 0, axis=0)
            if self.prob["penalty"]["kind"] in OP.GROUP_BLOCK:
                grs = OP.groups(self.prob["penalty"])
                wts = self.prob["penalty"].get("weights", self.prob["penalty"].get("weights_groups"))
                for g, idx in enumerate(grs):
                    if np.all(zero_cols[idx]) and wts[g] != 0 and np.any(wv[idx] != 0):
                        zc = 0
            else:
                pen_mask = OP.is_penalized(self.prob["penalty"], X.shape[1])
                rows = wv.reshape(len(wv), -1)
                if np.any((rows != 0).any(axis=1) & zero_cols & pen_mask):
                    zc = 0
        except Exception:  # noqa: BLE001
            zc = 1
        return zc

    def _on_init(self, f):
        st, w = self._state(f["w"], f.get("Xw"), f.get("grad"))
        self.first_w = w
        self.zc_start = self._zero_cols_zero(w)
        self.events.append(dict(e="init", dig=st["dig"], obj=st["obj"], cons=st["cons"],
                                feas=st["feas"], fin=st["fin"]))

    def _on_outer(self, f):
        st, w = self._state(f["w"], f.get("Xw"), f.get("grad"))
        self._vparts = (float("nan"), float("nan"))
        viol = self._viol(w) if st["fin"] else float("nan")
        self.events.append(dict(e="outer", t=int(f["t"]), crit=float(f["stop_crit"]), viol=viol,
                                vfeat=self._vparts[0], vint=self._vparts[1],
                                vb=PB.vbound(self.tol, self.scale), dig=st["dig"],
                                cons=st["cons"], obj=st["obj"], obj_lb=st["obj_lb"],
                                feas=st["feas"], fin=st["fin"], delta=st["delta"]))

    def _on_ws(self, f):
        ws = sorted(int(j) for j in np.asarray(f["ws"]).ravel())
        self.events.append(dict(e="ws", t=int(f["t"]), ws=ws))
        self._last_ws = ws

    def _on_epoch(self, f):
        st, w = self._state(f["w"], f.get("Xw"), f.get("grad"))
        self.events.append(dict(e="epoch", t=int(f["t"]), k=int(f["epoch"]), dig=st["dig"],
                                obj=st["obj"], obj_lb=st["obj_lb"], bobj=st["bobj"],
                                bobj_lb=st["bobj_lb"], cons=st["cons"], feas=st["feas"],
                                fin=st["fin"], delta=st["delta"]))

    def _on_aa(self, f):
        st, w = self._state(f["w"], f.get("Xw"), f.get("grad"))
        ext = int(bool(f.get("is_extrap", True)))   # unknown (MultiTaskBCD) counts as possible
        # support outside the working set at the moment of an extrapolation (mechanism by-catch)
        self.events.append(dict(e="aa", t=int(f["t"]), k=int(f["epoch"]), ext=ext, dig=st["dig"],
                                obj=st["obj"], obj_lb=st["obj_lb"], bobj=st["bobj"],
                                bobj_lb=st["bobj_lb"], cons=st["cons"], feas=st["feas"],
                                fin=st["fin"], delta=st["delta"]))

    def _on_inner(self, f):
        pass

    def _on_record(self, f):
        st, w = self._state(f["w"], f.get("Xw"), f.get("grad"))
        lo, hi = PB.approx_band(st["obj"], self.scale)
        val = f["p_obj"]
        try:
            val = float(val)
        except Exception:
            val = float("nan")
        self.events.append(dict(e="record", t=int(f["t"]), val=val, obj=st["obj"], obj_lo=lo,
                                obj_hi=hi, dig=st["dig"]))

    def ret(self, res, exc, w_init=None, Xw_init=None):
        if exc is not None:
            self.events.append(dict(e="raise", exc=type(exc).__name__,
                                    expl=int(_explanatory(exc)), msg=str(exc)[:300]))
            self.exc = exc
            return
        self.exc = None
        w, objs, crit = res
        w = np.asarray(w)
        st, wc = self._state(w, None)
        self._vparts = (float("nan"), float("nan"))
        viol = self._viol(wc) if st["fin"] else float("nan")
        lo, hi = PB.approx_band(st["obj"], self.scale)
        vlo, vhi = PB.approx_band(viol, self.scale)
        # C05: "on return the caller's model-fit buffer equals X w + b for the RETURNED coefficients". It is claimed
        # for the solvers that take the caller's buffers as their working arrays (all of them update in place); the
        # returned array being another object than w_init does not lift the obligation
        inplace = getattr(self, "solver_name", "") in INPLACE_SOLVERS
        same_buf = int(w_init is not None and Xw_init is not None and (inplace or w is w_init))
        cons_buf = 1
        if w_init is not None and Xw_init is not None and st["fin"]:
            z = PB.predictor(self.prob, np.asarray(wc, dtype=float))
            if np.shape(w_init) == np.shape(wc) and inplace:
                # ... and the caller's coefficient array holds the returned coefficients
                if float(np.max(np.abs(np.asarray(w_init, dtype=float) - np.asarray(wc, dtype=float)))) > 0:
                    cons_buf = 0
            Xb = np.asarray(Xw_init, dtype=float)
            if Xb.shape != z.shape:
                cons_buf = 0
            elif cons_buf:
                d = float(np.max(np.abs(Xb - z))) if z.size else 0.0
                cons_buf = int(PB.cons_ok(d, float(np.max(np.abs(z))) if z.size else 1.0))
        objs = np.asarray(objs, dtype=float).ravel()
        try:
            critf = float(crit)
        except Exception:
            critf = float("nan")
        fin = int(st["fin"] and bool(np.all(np.isfinite(objs))) and not np.isnan(critf))
        zc = self._zero_cols_zero(wc)
        self.events.append(dict(
            e="return", crit=critf, tol=self.tol, nobj=int(len(objs)), zc=zc, zc0=getattr(self, "zc_start", 1),
            zcs=getattr(self, "zc_strict", 0),
            vfeat=self._vparts[0], vint=self._vparts[1],
            objs=[float(v) for v in objs[:60]], dig=st["dig"], viol=viol,
            vb=PB.vbound(self.tol, self.scale), viol_lo=vlo, viol_hi=vhi, obj=st["obj"],
            obj_lb=st["obj_lb"], obj_lo=lo, obj_hi=hi, same_buf=same_buf, cons_buf=cons_buf,
            feas=st["feas"], fin=fin))
        self.result_w = wc

    # ------------------------------------------------------------------ output
    def trace(self, tid):
        return dict(id=tid, meta=self.meta, tol=self.tol, scale=self.scale,
                    dropped=self.n_dropped, events=self.events)


def dense(X):
    return X.toarray() if sparse.issparse(X) else np.asarray(X, dtype=float)


DESCENT = {"AndersonCD", "ProxNewton", "GroupBCD", "GroupProxNewton", "MultiTaskBCD", "GramCD"}
CERT = DESCENT | {"LBFGS"}


class AutoTracer:
    """Sink that opens one Tracer per BaseSolver.solve call, whoever makes the call (path(), fit(),
    a user loop). The problem of each call is read from the live objects at its `init` event
    (penalty.alpha as it is THEN), so every step is judged against the problem it was asked."""

    def __init__(self, meta=None, tol_floor=0.0):
        self.meta = dict(meta or {})
        self.traces = []
        self.cur = None
        self.n = 0
        self.path_steps = []
        self.fit_solves = []
        self.solves = []

    def sink(self, kind, f):
        from . import skl
        if kind == "solve_call":
            self._pending_call = f
            return
        if kind == "init":
            slv = f["solver"]
            name = type(slv).__name__
            pend = skl.describe_penalty(f["penalty"])
            dfd = skl.describe_datafit(f["datafit"])
            fi = bool(getattr(slv, "fit_intercept", False)) and name not in ("GramCD", "FISTA", "LBFGS",
                                                                                "PDCD_WS")
            prob = dict(X=dense(f["X"]), y=np.array(f["y"], dtype=float, copy=True), datafit=dfd,
                        penalty=pend, fit_intercept=fi)
            strategy = getattr(slv, "ws_strategy", getattr(slv, "opt_strategy", "subdiff"))
            self.n += 1
            tr = Tracer(prob, float(slv.tol), strategy=strategy,
                        family="pn" if name == "ProxNewton" else "cd",
                        meta=dict(self.meta, solver=name, datafit=dfd["kind"], penalty=pend["kind"],
                                  alpha=pend.get("alpha"), step=self.n,
                                  fit_intercept=fi, strategy=strategy))
            from .oracle import penalties as OP
            tr.flags = dict(descent=int(name in DESCENT and OP.is_convex(pend)), cert=int(name in CERT),
                            critval=int(name in CERT or name == "FISTA"),
                            haswouter=int(name != "LBFGS"))
            self.cur = tr
            tr.sink(kind, f)
            return
        if kind == "solve_return":
            if self.cur is not None:
                self.cur.ret(f["res"], None, f.get("w_init"), f.get("Xw_init"))
                self._close()
            return
        if kind == "solve_raise":
            if self.cur is not None:
                self.cur.ret(None, f["exc"])
                self._close()
            return
        if kind == "path_step":
            self.path_steps.append(dict(t=int(f["t"]), alpha=float(f["alpha"])))
            return
        if kind == "fit_solve":
            self.fit_solves.append(dict(n_iter=len(f["p_obj"]), kkt=float(np.max(f["kkt"]))))
            return
        if self.cur is not None:
            self.cur.sink(kind, f)

    def _close(self):
        tr = self.cur
        t = tr.trace(self.n)
        t.update(tr.flags)
        self.traces.append(t)
        # what each observed solve was asked and what it returned (for checks of what path() / fit() then report)
        self.solves.append(dict(prob=tr.prob, w=getattr(tr, "result_w", None), strategy=tr.strategy,
                                family=tr.family, tol=tr.tol))
        self.cur = None

    def install(self):
        from skglm import _verif
        self._prev = _verif.set_sink(self.sink)
        return self

    def remove(self):
        from skglm import _verif
        _verif.set_sink(self._prev)
