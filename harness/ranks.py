"""Rank encoding of observed floats (DESIGN 3.2): TLC compares, it never does float arithmetic.

Within one trace every float is replaced by its dense rank among all floats of that trace
(equal floats get equal ranks; -inf lowest, +inf high, NaN highest)."""
import math

FLOAT_FIELDS = {"crit", "viol", "vb", "obj", "obj_lb", "bobj", "bobj_lb", "val", "obj_lo", "obj_hi",
                "tol", "viol_lo", "viol_hi", "a", "b", "lo", "hi", "x", "x_lo", "x_hi"}
INT_OVERRIDE = {"ok", "when"}
FLOAT_LISTS = {"objs", "xs"}
DROP_FIELDS = {"delta", "msg", "vfeat", "vint"}


def _key(v):
    if v is None:
        return (2, 0.0)
    v = float(v)
    if math.isnan(v):
        return (2, 0.0)
    return (1, v)


def encode_trace(tr, extra_top=("tol",)):
    vals = set()
    for k in extra_top:
        if k in tr:
            vals.add(_key(tr[k]))
    for ev in tr["events"]:
        for k, v in ev.items():
            if k in FLOAT_FIELDS:
                vals.add(_key(v))
            elif k in FLOAT_LISTS:
                for x in v:
                    vals.add(_key(x))
    order = {k: i + 1 for i, k in enumerate(sorted(vals))}
    out = {k: v for k, v in tr.items() if k != "events"}
    for k in extra_top:
        if k in tr:
            out[k] = order[_key(tr[k])]
    evs = []
    for ev in tr["events"]:
        e2 = {}
        for k, v in ev.items():
            if k in DROP_FIELDS:
                continue
            if k in FLOAT_FIELDS:
                e2[k] = order[_key(v)]
            elif k in FLOAT_LISTS:
                e2[k] = [order[_key(x)] for x in v]
            else:
                e2[k] = v
        evs.append(e2)
    out["events"] = evs
    return out
