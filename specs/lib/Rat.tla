-------------------------------- MODULE Rat --------------------------------
(***************************************************************************)
(* Exact rational arithmetic on normalised pairs <<n, d>> (d > 0,          *)
(* gcd(|n|, d) = 1) and extended reals, within TLC's 32-bit integers.      *)
(* Used by the definition-level modules (Penalty, Datafit) so that TLC     *)
(* decides prox / subdifferential / derivative questions EXACTLY on        *)
(* lattices of small rationals.                                            *)
(***************************************************************************)
EXTENDS Integers, Sequences

Abs(x) == IF x < 0 THEN -x ELSE x
RECURSIVE GCD(_, _)
GCD(a, b) == IF b = 0 THEN a ELSE GCD(b, a % b)
Norm(n, d) == LET g == GCD(Abs(n), Abs(d)) s == IF d < 0 THEN -1 ELSE 1
              IN <<(s * n) \div g, (s * d) \div g>>
Q(n, d) == Norm(n, d)
QI(i) == <<i, 1>>
Zero == <<0, 1>>
One == <<1, 1>>
Two == <<2, 1>>
Add(a, b) == Norm(a[1] * b[2] + b[1] * a[2], a[2] * b[2])
Neg(a) == <<-a[1], a[2]>>
Sub(a, b) == Add(a, Neg(b))
Mul(a, b) == Norm(a[1] * b[1], a[2] * b[2])
Div(a, b) == Norm(a[1] * b[2], a[2] * b[1])
Leq(a, b) == a[1] * b[2] <= b[1] * a[2]
Lt(a, b) == a[1] * b[2] < b[1] * a[2]
Eq(a, b) == a[1] * b[2] = b[1] * a[2]
QAbs(a) == <<Abs(a[1]), a[2]>>
QMax(a, b) == IF Leq(a, b) THEN b ELSE a
QMin(a, b) == IF Leq(a, b) THEN a ELSE b
Sign(x) == IF x[1] > 0 THEN One ELSE IF x[1] < 0 THEN Neg(One) ELSE Zero
Sq(a) == Mul(a, a)
IsRat(a) == a[2] > 0

\* extended reals (interval ends, infinite slopes, infinite distances)
Fin(q) == [k |-> "fin", v |-> q]
MInf == [k |-> "-inf", v |-> Zero]
PInf == [k |-> "+inf", v |-> Zero]
ELeq(a, b) == a.k = "-inf" \/ b.k = "+inf" \/ (a.k = "fin" /\ b.k = "fin" /\ Leq(a.v, b.v))
ELt(a, b) == (a.k = "-inf" /\ b.k # "-inf") \/ (b.k = "+inf" /\ a.k # "+inf")
             \/ (a.k = "fin" /\ b.k = "fin" /\ Lt(a.v, b.v))
=============================================================================
