------------------------------ MODULE Penalty ------------------------------
(***************************************************************************)
(* Scalar penalties of skglm as PIECE TABLES, transcribed from the class   *)
(* docstrings (not from the code), and everything the properties need,     *)
(* DERIVED from the tables:                                                *)
(*   Val            the penalty value (+infinity outside the domain)       *)
(*   LeftD, RightD  one-sided derivatives                                  *)
(*   Dist           distance of v to the regular subdifferential           *)
(*                  [LeftD, RightD] (empty at concave kinks and outside    *)
(*                  the domain: distance +infinity)              -- C08    *)
(*   ProxSet        set of global minimisers of 1/2 (u-x)^2 + s P(u),      *)
(*                  exact: breakpoints + per-piece stationary points -- C07*)
(* A table is a sequence of closed pieces [lo, hi] with value              *)
(* a u^2 + b u + c inside; adjacent pieces share their end point.          *)
(***************************************************************************)
EXTENDS Rat, FiniteSets

Piece(lo, hi, a, b, c) == [lo |-> lo, hi |-> hi, a |-> a, b |-> b, c |-> c]
In(p, u) == ELeq(p.lo, Fin(u)) /\ ELeq(Fin(u), p.hi)
Dom(P, u) == \E i \in 1..Len(P) : In(P[i], u)
PieceVal(p, u) == Add(Add(Mul(p.a, Sq(u)), Mul(p.b, u)), p.c)
Val(P, u) == LET i == CHOOSE i \in 1..Len(P) : In(P[i], u) IN PieceVal(P[i], u)
Slope(p, u) == Add(Mul(Two, Mul(p.a, u)), p.b)
RightD(P, u) == LET I == {i \in 1..Len(P) : In(P[i], u) /\ ELt(Fin(u), P[i].hi)} IN
                IF I = {} THEN PInf ELSE Fin(Slope(P[CHOOSE i \in I : TRUE], u))
LeftD(P, u) == LET I == {i \in 1..Len(P) : In(P[i], u) /\ ELt(P[i].lo, Fin(u))} IN
               IF I = {} THEN MInf ELSE Fin(Slope(P[CHOOSE i \in I : TRUE], u))
SubEmpty(P, u) == ~Dom(P, u) \/ ~ELeq(LeftD(P, u), RightD(P, u))
Dist(P, u, v) == IF SubEmpty(P, u) THEN PInf
                 ELSE LET lo == LeftD(P, u) hi == RightD(P, u) IN
                      IF lo.k = "fin" /\ Lt(v, lo.v) THEN Fin(Sub(lo.v, v))
                      ELSE IF hi.k = "fin" /\ Lt(hi.v, v) THEN Fin(Sub(v, hi.v))
                      ELSE Fin(Zero)
\* prox objective and exact candidate set
H(P, x, s, u) == Add(Div(Sq(Sub(u, x)), Two), Mul(s, Val(P, u)))
Stat(p, x, s) == LET den == Add(One, Mul(Two, Mul(s, p.a))) IN
                 IF Lt(Zero, den) THEN {Div(Sub(x, Mul(s, p.b)), den)} ELSE {}
Ends(P) == {P[i].lo.v : i \in {j \in 1..Len(P) : P[j].lo.k = "fin"}}
           \cup {P[i].hi.v : i \in {j \in 1..Len(P) : P[j].hi.k = "fin"}}
Cands(P, x, s) == Ends(P) \cup UNION {{u \in Stat(P[i], x, s) : In(P[i], u)} : i \in 1..Len(P)}
ProxSet(P, x, s) == LET C == Cands(P, x, s) IN {u \in C : \A v \in C : Leq(H(P, x, s, u), H(P, x, s, v))}
\* the step range in which the prox of a (possibly non-convex) table is single valued a.e. and the
\* coordinate step is a majorisation: 1 + 2 s a > 0 on every piece
WellPosed(P, s) == \A i \in 1..Len(P) : Lt(Zero, Add(One, Mul(Two, Mul(s, P[i].a))))
Convex(P) == /\ \A i \in 1..Len(P) : Leq(Zero, P[i].a)
             /\ \A i \in 1..(Len(P) - 1) : P[i].hi.k = "fin" =>
                   Leq(Slope(P[i], P[i].hi.v), Slope(P[i + 1], P[i].hi.v))

\* ---------- tables (docstrings of skglm/penalties/separable.py, estimator docs) ----------
\* even extension of a table given on u >= 0
Mirror(p) == Piece(IF p.hi.k = "fin" THEN Fin(Neg(p.hi.v)) ELSE MInf,
                   Fin(Neg(p.lo.v)), p.a, Neg(p.b), p.c)
RECURSIVE Rev(_)
Rev(s) == IF s = <<>> THEN <<>> ELSE Append(Rev(Tail(s)), Head(s))
Even(Pp) == Rev([i \in 1..Len(Pp) |-> Mirror(Pp[i])]) \o Pp
Sym(Pp, pos) == IF pos THEN Pp ELSE Even(Pp)

\* alpha * w * |u|                      (L1: w = 1 ; WeightedL1: w = weights[j])
TL1(al, w, pos) == Sym(<< Piece(Fin(Zero), PInf, Zero, Mul(al, w), Zero) >>, pos)
\* alpha (r |u| + (1 - r) u^2 / 2)
TEnet(al, r, pos) == Sym(<< Piece(Fin(Zero), PInf, Div(Mul(al, Sub(One, r)), Two), Mul(al, r), Zero) >>, pos)
\* w * (alpha |u| - u^2/(2 gamma))  for |u| <= gamma alpha ;  w * gamma alpha^2 / 2 beyond
TMCP(al, g, w, pos) ==
  LET ga == Mul(g, al) IN
  Sym(<< Piece(Fin(Zero), Fin(ga), Neg(Div(w, Mul(Two, g))), Mul(w, al), Zero),
         Piece(Fin(ga), PInf, Zero, Zero, Div(Mul(w, Mul(g, Sq(al))), Two)) >>, pos)
\* SCAD
TSCAD(al, g) ==
  LET ga == Mul(g, al) gm == Sub(g, One) IN
  Even(<< Piece(Fin(Zero), Fin(al), Zero, al, Zero),
          Piece(Fin(al), Fin(ga), Neg(Div(One, Mul(Two, gm))), Div(ga, gm), Neg(Div(Sq(al), Mul(Two, gm)))),
          Piece(Fin(ga), PInf, Zero, Zero, Div(Mul(Sq(al), Add(g, One)), Two)) >>)
TBox(C) == << Piece(Fin(Zero), Fin(C), Zero, Zero, Zero) >>
TPos == << Piece(Fin(Zero), PInf, Zero, Zero, Zero) >>
TL2(al) == << Piece(MInf, PInf, Div(al, Two), Zero, Zero) >>

Table(kind, al, g, r, w, pos) ==
  CASE kind = "L1" -> TL1(al, One, pos)
    [] kind = "WeightedL1" -> TL1(al, w, pos)
    [] kind = "L1_plus_L2" -> TEnet(al, r, pos)
    [] kind = "MCPenalty" -> TMCP(al, g, One, pos)
    [] kind = "WeightedMCPenalty" -> TMCP(al, g, w, pos)
    [] kind = "SCAD" -> TSCAD(al, g)
    [] kind = "IndicatorBox" -> TBox(al)
    [] kind = "PositiveConstraint" -> TPos
    [] kind = "L2" -> TL2(al)
=============================================================================
