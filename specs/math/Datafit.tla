------------------------------ MODULE Datafit ------------------------------
(***************************************************************************)
(* The DOCUMENTED losses of skglm's datafits as functions of the linear    *)
(* predictor z = Xw + b, and their derivatives w.r.t. z, exactly:          *)
(*                                                                         *)
(*  - polynomial losses (Quadratic, WeightedQuadratic, Huber): the loss is *)
(*    evaluated from the documented formula and the derivative is DERIVED  *)
(*    from it inside the spec -- an exact central difference for quadratic *)
(*    losses, the one-sided derivative operators of Penalty.tla applied to *)
(*    the Huber piece table;                                               *)
(*  - exponential-family losses (Logistic, Poisson, Gamma) on the          *)
(*    ln2-lattice: z_i = k_i ln 2 with integer k_i, so exp(z_i) = 2^k_i is *)
(*    rational and so are all derivatives (closed forms written from the   *)
(*    documented loss; cross-checked symbolically by the harness).         *)
(*                                                                         *)
(* y, z, sw are sequences of rationals; for the ln2 kinds z holds the      *)
(* integers k_i as rationals <<k, 1>>.                                     *)
(***************************************************************************)
EXTENDS Penalty

RECURSIVE SumQ(_, _)
SumQ(f, n) == IF n = 0 THEN Zero ELSE Add(f[n], SumQ(f, n - 1))
Nn(z) == QI(Len(z))
RECURSIVE Pow2(_)
Pow2(k) == IF k = 0 THEN One ELSE IF k > 0 THEN Mul(Two, Pow2(k - 1)) ELSE Div(Pow2(k + 1), Two)
K(zi) == zi[1]                      \* the integer k of a ln2-lattice coordinate <<k, 1>>

\* Huber function f_delta as a piece table (doc: 1/2 x^2 if |x| <= delta, delta|x| - delta^2/2 beyond)
THuber(d) == << Piece(MInf, Fin(Neg(d)), Zero, Neg(d), Neg(Div(Sq(d), Two))),
                Piece(Fin(Neg(d)), Fin(d), Div(One, Two), Zero, Zero),
                Piece(Fin(d), PInf, Zero, d, Neg(Div(Sq(d), Two))) >>

\* ---------------------------------------------------------------- losses (polynomial kinds)
Loss(kind, y, z, sw, d) ==
  LET n == Len(z) IN
  CASE kind = "Quadratic" -> Div(SumQ([i \in 1..n |-> Sq(Sub(y[i], z[i]))], n), Mul(Two, QI(n)))
    [] kind = "WeightedQuadratic" ->
         Div(SumQ([i \in 1..n |-> Mul(sw[i], Sq(Sub(y[i], z[i])))], n), Mul(Two, SumQ(sw, n)))
    [] kind = "Huber" -> Div(SumQ([i \in 1..n |-> Val(THuber(d), Sub(y[i], z[i]))], n), QI(n))

\* ---------------------------------------------------------------- d loss / d z_i
Bump(z, i, h) == [z EXCEPT ![i] = Add(z[i], h)]
\* exact for quadratic losses: (L(z + h e_i) - L(z - h e_i)) / 2h
CentralDiff(kind, y, z, sw, d, i) ==
  Div(Sub(Loss(kind, y, Bump(z, i, One), sw, d), Loss(kind, y, Bump(z, i, Neg(One)), sw, d)), Two)

RawGrad(kind, y, z, sw, d, i) ==
  LET n == QI(Len(z)) IN
  CASE kind \in {"Quadratic", "WeightedQuadratic"} -> CentralDiff(kind, y, z, sw, d, i)
    [] kind = "Huber" ->   \* chain rule on r = y - z : d/dz f(y - z) = -f'(r); f is C1 so LeftD = RightD
         Div(Neg(RightD(THuber(d), Sub(y[i], z[i])).v), n)
    [] kind = "Logistic" -> \* -y / (1 + exp(y z)) / n ,  exp(y z) = 2^(y k)
         Div(Neg(y[i]), Mul(n, Add(One, Pow2(y[i][1] * K(z[i])))))
    [] kind = "Poisson" -> Div(Sub(Pow2(K(z[i])), y[i]), n)
    [] kind = "Gamma" -> Div(Sub(One, Mul(y[i], Pow2(-K(z[i])))), n)

\* second derivative w.r.t. z_i (the Hessian is diagonal for these losses)
RawHess(kind, y, z, sw, d, i) ==
  LET n == QI(Len(z)) IN
  CASE kind = "Quadratic" -> Div(One, n)
    [] kind = "WeightedQuadratic" -> Div(sw[i], SumQ(sw, Len(z)))
    [] kind = "Huber" ->   \* upper second derivative of f_delta(y - z): 1 inside and on the kink, 0 beyond
         IF Leq(QAbs(Sub(y[i], z[i])), d) THEN Div(One, n) ELSE Zero
    [] kind = "Logistic" -> LET e == Pow2(y[i][1] * K(z[i])) IN Div(e, Mul(n, Sq(Add(One, e))))
    [] kind = "Poisson" -> Div(Pow2(K(z[i])), n)
    [] kind = "Gamma" -> Div(Mul(y[i], Pow2(-K(z[i]))), n)

\* gradient w.r.t. the intercept, and the documented intercept step  grad_b / L0
InterceptGrad(kind, y, z, sw, d) == SumQ([i \in 1..Len(z) |-> RawGrad(kind, y, z, sw, d, i)], Len(z))
HasL0(kind) == kind \in {"Quadratic", "Logistic", "Huber"}       \* doc/tutorials/intercept.md
L0(kind) == IF kind = "Logistic" THEN Q(1, 4) ELSE One
InterceptStep(kind, y, z, sw, d) == Div(InterceptGrad(kind, y, z, sw, d), L0(kind))
=============================================================================
