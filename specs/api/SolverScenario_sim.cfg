SPECIFICATION Spec
CONSTANT Focus = "ALL"
INVARIANT WellFormed
CHECK_DEADLOCK FALSE
