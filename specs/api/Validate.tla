------------------------------ MODULE Validate ------------------------------
(***************************************************************************)
(* The compatibility protocol of BaseSolver.solve:                         *)
(*     _validate = custom_checks ; check_attrs(datafit) ; check_attrs(pen) *)
(* over the attribute tables of the datafit / penalty objects.             *)
(*                                                                         *)
(* The table `has` (object -> attributes it really has) is extracted from  *)
(* the working tree by introspection at check time and read from           *)
(* env VALIDATE_FILE, together with the list of cells                      *)
(*   solver x strategy x datafit x penalty x storage.                      *)
(* For every cell the model gives                                          *)
(*   Verdict   "accept" | "AttributeError" | "ValueError", in the order    *)
(*             the code raises them  (binding: compared with the real      *)
(*             _validate by the driver -- drift, not a violation);         *)
(*   Missing   the methods the solver's _solve will call on this storage   *)
(*             that the objects lack (Calls \ has): an accepted cell with  *)
(*             Missing # {} is a predicted late failure, replayed first.   *)
(* Invariant AcceptedRuns (C13 at design level): accept => Missing = {}.   *)
(* It is EXPECTED to fail for some cells of the current tree; those cells  *)
(* are the directed scenarios of the C13 check.                            *)
(***************************************************************************)
EXTENDS Integers, Sequences, FiniteSets, TLC, Json, IOUtils

Data == JsonDeserialize(IOEnv.VALIDATE_FILE)
HasSeq(o) == Data.has[o]
Has(o, a) == \E k \in 1..Len(HasSeq(o)) : HasSeq(o)[k] = a
Sfx(a, sp) == IF sp THEN a \o "_sparse" ELSE a
Req(o, groups, sp) == \A g \in groups : \E a \in g : Has(o, Sfx(a, sp))
GroupOK(o) == Has(o, "grp_ptr") /\ Has(o, "grp_indices")

Verdict(s, ws, d, p, sp) ==
  CASE s = "AndersonCD" ->
         IF ~Req(d, {{"get_lipschitz"}, {"gradient_scalar"}}, sp) THEN "AttributeError"
         ELSE IF ws = "subdiff" /\ ~Has(p, "subdiff_distance") THEN "AttributeError"
         ELSE IF ~Req(d, {{"get_lipschitz"}, {"gradient_scalar"}}, FALSE) \/ ~Has(p, "prox_1d") THEN "AttributeError" ELSE "accept"
    [] s = "GroupBCD" ->
         IF ~GroupOK(d) \/ ~GroupOK(p) THEN "ValueError"
         ELSE IF ~Req(d, {{"get_lipschitz"}, {"gradient_g"}}, sp) THEN "AttributeError"
         ELSE IF ws = "subdiff" /\ ~Has(p, "subdiff_distance") THEN "AttributeError"
         ELSE IF ~Req(d, {{"get_lipschitz"}, {"gradient_g"}}, FALSE) \/ ~Has(p, "prox_1group") THEN "AttributeError" ELSE "accept"
    [] s = "MultiTaskBCD" ->
         IF ~Req(d, {{"get_lipschitz"}, {"gradient_j"}}, sp) THEN "AttributeError"
         ELSE IF ws = "subdiff" /\ ~Has(p, "subdiff_distance") THEN "AttributeError"
         ELSE IF ~Req(d, {{"get_lipschitz"}, {"gradient_j"}}, FALSE) \/ ~Has(p, "prox_1feat") THEN "AttributeError" ELSE "accept"
    [] s = "ProxNewton" ->
         IF ws = "subdiff" /\ ~Has(p, "subdiff_distance") THEN "AttributeError"
         ELSE IF ~Req(d, {{"raw_grad"}, {"raw_hessian"}}, FALSE) \/ ~Has(p, "prox_1d") THEN "AttributeError" ELSE "accept"
    [] s = "GroupProxNewton" ->
         IF ~GroupOK(d) \/ ~GroupOK(p) THEN "ValueError"
         ELSE IF sp THEN "ValueError"
         ELSE IF ~Req(d, {{"raw_grad"}, {"raw_hessian"}}, FALSE) \/ ~Req(p, {{"prox_1group"}, {"subdiff_distance"}}, FALSE) THEN "AttributeError" ELSE "accept"
    [] s = "GramCD" ->
         IF d # "None" THEN "AttributeError"
         ELSE IF ~Req(p, {{"prox_1d"}, {"subdiff_distance"}}, FALSE) THEN "AttributeError" ELSE "accept"
    [] s = "FISTA" ->
         IF ~Req(d, {{"get_global_lipschitz"}, {"gradient", "gradient_scalar"}}, sp) THEN "AttributeError"
         ELSE IF ws = "subdiff" /\ ~Has(p, "subdiff_distance") THEN "AttributeError"
         ELSE IF ~Req(d, {{"get_global_lipschitz"}, {"gradient", "gradient_scalar"}}, FALSE) \/ ~Req(p, {{"prox_1d", "prox_vec"}}, FALSE) THEN "AttributeError" ELSE "accept"
    [] s = "LBFGS" ->
         IF ~Req(d, {{"gradient"}}, sp) THEN "AttributeError"
         ELSE IF ~Has(d, "gradient") \/ ~Has(p, "gradient") THEN "AttributeError" ELSE "accept"
    [] s = "PDCD_WS" ->
         IF sp THEN "ValueError"
         ELSE IF ~Has(d, "prox_conjugate") \/ ~Has(p, "prox_1d") THEN "AttributeError" ELSE "accept"

\* ---- what _solve really calls (read off each _solve; storage and strategy dependent) ----
\* each entry: <<"d" | "p", set of alternatives>> : at least one alternative must exist
DCalls(s, ws, sp, fi) ==
  CASE s = "AndersonCD" ->
         {{Sfx("initialize", sp)}, {Sfx("get_lipschitz", sp)}, {"value"}}
         \cup (IF sp THEN {{"full_grad_sparse"}, {"gradient_scalar_sparse"}} ELSE {{"gradient_scalar"}})
         \cup (IF fi THEN {{"intercept_update_step"}} ELSE {})
    [] s = "GroupBCD" ->
         {{Sfx("initialize", sp)}, {Sfx("get_lipschitz", sp)}, {Sfx("gradient_g", sp)}, {"value"}}
         \cup (IF fi THEN {{"intercept_update_step"}} ELSE {})
    [] s = "MultiTaskBCD" ->
         {{Sfx("initialize", sp)}, {Sfx("get_lipschitz", sp)}, {"value"}}
         \cup (IF sp THEN {{"full_grad_sparse"}, {"gradient_j_sparse"}} ELSE {{"gradient_j"}})
         \cup (IF fi THEN {{"intercept_update_step"}} ELSE {})
    [] s \in {"ProxNewton", "GroupProxNewton"} -> {{"raw_grad"}, {"raw_hessian"}, {"value"}}
    [] s = "GramCD" -> {}
    [] s = "FISTA" -> {{Sfx("get_global_lipschitz", sp)}, {"value"}, {Sfx("gradient", sp), Sfx("gradient_scalar", sp)}}
    [] s = "LBFGS" -> {{Sfx("gradient", sp)}, {"value"}}
    [] s = "PDCD_WS" -> {{"prox_conjugate"}, {"value"}}
PCalls(s, ws, sp, fi) ==
  CASE s = "AndersonCD" -> {{"is_penalized"}, {"generalized_support"}, {"value"}, {"prox_1d"}}
                           \cup (IF ws = "subdiff" THEN {{"subdiff_distance"}} ELSE {})
    [] s = "GroupBCD" -> {{"generalized_support"}, {"value"}, {"prox_1group"}}
                         \cup (IF ws = "subdiff" THEN {{"subdiff_distance"}} ELSE {})
    [] s = "MultiTaskBCD" -> {{"is_penalized"}, {"value"}, {"prox_1feat"}}
                             \cup (IF ws = "subdiff" THEN {{"subdiff_distance"}} ELSE {})
    [] s = "ProxNewton" -> {{"generalized_support"}, {"value"}, {"prox_1d"}}
                           \cup (IF ws = "subdiff" THEN {{"subdiff_distance"}} ELSE {})
    [] s = "GroupProxNewton" -> {{"generalized_support"}, {"value"}, {"prox_1group"}, {"subdiff_distance"}}
    [] s = "GramCD" -> {{"subdiff_distance"}, {"value"}, {"prox_1d"}}
    [] s = "FISTA" -> {{"value"}, {"prox_vec", "prox_1d"}}
                      \cup (IF ws = "subdiff" THEN {{"subdiff_distance"}} ELSE {{"prox_vec"}})
    [] s = "LBFGS" -> {{"gradient"}, {"value"}}
    [] s = "PDCD_WS" -> {{"value"}, {"prox_1d"}}

Missing(s, ws, d, p, sp, fi) ==
  {g \in DCalls(s, ws, sp, fi) : d # "None" /\ \A a \in g : ~Has(d, a)}
  \cup {g \in PCalls(s, ws, sp, fi) : \A a \in g : ~Has(p, a)}

VARIABLES i
C == Data.cells[i]
Init == i = 1
Next == /\ i <= Len(Data.cells)
        /\ LET v == Verdict(C.s, C.ws, C.d, C.p, C.sp)
               m == IF v = "accept" THEN Missing(C.s, C.ws, C.d, C.p, C.sp, C.fi) ELSE {}
           IN PrintT(ToJson([v |-> 3, id |-> C.id, verdict |-> v,
                             missing |-> {CHOOSE a \in g : TRUE : g \in m}]))
        /\ i' = i + 1
Spec == Init /\ [][Next]_i
AcceptedRuns == i <= Len(Data.cells) =>
                  (Verdict(C.s, C.ws, C.d, C.p, C.sp) = "accept" => Missing(C.s, C.ws, C.d, C.p, C.sp, C.fi) = {})
=============================================================================
