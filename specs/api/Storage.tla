------------------------------- MODULE Storage -------------------------------
(***************************************************************************)
(* How X is stored x where it enters the library (C10).                    *)
(*                                                                         *)
(* A representation is [container, dtype]; an entry point is "solve" (raw  *)
(* BaseSolver.solve: no conversion), "fit" (estimator: check_array /       *)
(* validate_data convert to CSC or Fortran order, float64 or float32) or   *)
(* "path". The model states, per (entry, representation), what must        *)
(* happen:                                                                 *)
(*    "canon64"  the kernels see the float64 problem: same solution as the *)
(*               dense Fortran float64 run, up to solver tolerance          *)
(*    "canon32"  the float32 problem: same solution up to single precision *)
(*    "refuse"   an explanatory error naming the representation            *)
(* TLC enumerates the product (exhaustively: it is a few hundred states)   *)
(* and emits one scenario per (entry, composition, representation); the    *)
(* driver executes it and the RelTrace monitor judges `same` /             *)
(* `refuse_explained`.                                                      *)
(***************************************************************************)
EXTENDS Integers, Sequences, FiniteSets, TLC, Json

\* csc_explicit_zeros: a valid CSC matrix whose zeros are stored entries (X.multiply(mask), X.data[...] = 0)
Containers == {"ndarray_F", "ndarray_C", "list", "csc", "csc_unsorted", "csc_idx64", "csc_explicit_zeros", "csr", "coo"}
Dtypes == {"f64", "f32", "i64"}
Entries == {"solve", "fit", "path"}
SolveComps == { <<"AndersonCD", "Quadratic", "L1">>, <<"AndersonCD", "Logistic", "L1">>,
                <<"AndersonCD", "Huber", "L1_plus_L2">>, <<"AndersonCD", "WeightedQuadratic", "L1">>,
                <<"AndersonCD", "QuadraticSVC", "IndicatorBox">>,
                <<"ProxNewton", "Logistic", "L1">>, <<"ProxNewton", "Poisson", "L1">>,
                <<"GroupBCD", "QuadraticGroup", "WeightedGroupL2">>,
                <<"MultiTaskBCD", "QuadraticMultiTask", "L2_1">>,
                <<"GramCD", "None", "L1">>, <<"LBFGS", "Logistic", "L2">>, <<"FISTA", "Quadratic", "L1">> }
FitComps == {"Lasso", "WeightedLasso", "ElasticNet", "MCPRegression", "SparseLogisticRegression", "LinearSVC",
             "GroupLasso", "MultiTaskLasso", "GeneralizedLinearEstimator"}
PathComps == {"Lasso", "ElasticNet", "MCPRegression"}

IsSparse(c) == c \in {"csc", "csc_unsorted", "csc_idx64", "csc_explicit_zeros", "csr", "coo"}
\* what the documentation promises
Expected(entry, c, d) ==
  IF entry = "solve"
  THEN (IF c \in {"ndarray_F", "ndarray_C", "csc", "csc_unsorted", "csc_idx64", "csc_explicit_zeros"} /\ d = "f64" THEN "canon64"
        ELSE IF c = "list" \/ c \in {"csr", "coo"} \/ d # "f64" THEN "canon_or_refuse" ELSE "canon64")
  ELSE (IF d = "f32" THEN "canon32" ELSE "canon64")     \* estimators convert everything

\* how a raw solve is started: cold, from consistent user coefficients, or from coefficients that sit on a
\* column without any stored entry (the dense and the sparse kernels must treat it alike)
Starts(e, k) == IF e = "solve" /\ k[1] \notin {"LBFGS", "FISTA"} /\ k[2] # "QuadraticSVC"
                THEN {"cold", "warm", "warm_null_col"} ELSE {"cold"}

\* "contrast": every column of X sums EXACTLY to zero (contrast / effect coding, signed incidence matrices): the
\* constant vector is in the null space of X^T, which is where a power method with a deterministic start fails;
\* only the solvers that take their step from a sparse spectral norm see a difference
Designs(e, k) == IF e = "solve" /\ k[1] \in {"FISTA", "GroupBCD"} THEN {"generic", "contrast"} ELSE {"generic"}

VARIABLES entry, comp, rep
vars == <<entry, comp, rep>>
Init == entry = "none" /\ comp = <<>> /\ rep = [c |-> "ndarray_F", d |-> "f64"]
Pick == /\ entry = "none"
        /\ \E e \in Entries : \E c \in Containers : \E d \in Dtypes :
             /\ (d = "i64" => ~IsSparse(c))
             /\ (c = "list" => d = "f64")
             /\ \E k \in (IF e = "solve" THEN SolveComps ELSE IF e = "fit" THEN {<<f>> : f \in FitComps} ELSE {<<f>> : f \in PathComps}) :
                  /\ entry' = e /\ comp' = k /\ rep' = [c |-> c, d |-> d]
                  /\ \A st \in Starts(e, k) : \A dg \in Designs(e, k) :
                       (dg = "generic" \/ st = "cold") =>
                       PrintT(ToJson([entry |-> e, comp |-> k, container |-> c, dtype |-> d, start |-> st,
                                      design |-> dg, expected |-> Expected(e, c, d)]))
Spec == Init /\ [][Pick]_vars
=============================================================================
