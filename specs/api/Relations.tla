------------------------------ MODULE Relations ------------------------------
(***************************************************************************)
(* Relations between runs (C02 reference optima, C14 reductions, C15       *)
(* symmetries, C16 critical strength) as a finite catalogue of relation    *)
(* kinds x instances; TLC enumerates it, the driver solves both members of *)
(* each pair on the real code and the RelTrace monitor judges `agree`.     *)
(*                                                                         *)
(* Every relation is a THEOREM of the documented objective F:              *)
(*   reduction   the two configurations define the same function F         *)
(*   symmetry    F'(T w) = F(w) for the transformed data, T a bijection    *)
(*   reference   both implementations minimise the same F                  *)
(* so for convex F the optimal VALUES coincide, and the minimisers do when *)
(* F is strictly convex on the support -- which is what `agree` /          *)
(* `unique_same_w` state. The definition-level part (same piece tables,    *)
(* same loss) is checked on the exact lattices by PenVec / DataVec.        *)
(***************************************************************************)
EXTENDS Integers, Sequences, FiniteSets, TLC, Json

CONSTANT Family       \* "C02" | "C14" | "C15" | "C16"

Reductions == {"unit_weights_l1", "unit_weights_mcp", "unit_weights_group", "l1_ratio_one", "singleton_groups",
               "one_task", "constant_slope", "big_gamma_mcp", "big_delta_huber", "unit_sample_weights",
               "integer_sample_weights", "efron_no_ties", "efron_no_tied_events", "sparse_group_zero_group_weights",
               "gram_vs_cd", "gram_vs_cd_acc", "gram_greedy_vs_cyclic",
               "estimator_vs_gle_lasso", "estimator_vs_gle_enet", "estimator_vs_gle_mcp", "estimator_vs_gle_logreg",
               "estimator_vs_gle_svc", "block_mcp_one_task"}
Symmetries == {"perm_features", "perm_features_weights", "perm_groups", "perm_within_group", "perm_tasks",
               "perm_samples", "stack_2", "stack_3", "scale_y_alpha", "scale_feature_weight"}
SymSolvers == {"AndersonCD_L1", "AndersonCD_WeightedL1", "AndersonCD_MCP", "AndersonCD_Logistic", "ProxNewton_Logistic",
               "ProxNewton_WeightedL1",
               "GroupBCD", "GroupBCD_SparseGroup", "GroupProxNewton", "MultiTaskBCD", "GramCD", "FISTA", "ProxNewton_Cox"}
References == {"lasso_sklearn", "lasso_celer", "enet_sklearn", "lasso_positive_sklearn", "enet_positive_sklearn",
               "logreg_l1_sklearn", "svc_sklearn", "multitask_sklearn", "grouplasso_celer",
               "quantile_linprog", "sqrtlasso_fixedpoint"}
RefSolvers(r) ==
  CASE r \in {"lasso_sklearn", "lasso_celer"} -> {"AndersonCD", "AndersonCD_fixpoint", "GramCD", "GramCD_acc", "FISTA", "ProxNewton", "Lasso",
                                                   "GramCD_warm", "AndersonCD_warm", "FISTA_warm"}
    [] r = "enet_sklearn" -> {"AndersonCD", "GramCD", "FISTA", "ElasticNet"}
    [] r = "lasso_positive_sklearn" -> {"AndersonCD", "GramCD", "FISTA", "Lasso", "GramCD_warm"}
    [] r = "enet_positive_sklearn" -> {"AndersonCD", "ElasticNet"}
    [] r = "logreg_l1_sklearn" -> {"ProxNewton", "AndersonCD", "FISTA", "SparseLogisticRegression"}
    [] r = "svc_sklearn" -> {"AndersonCD", "FISTA", "LinearSVC"}
    [] r = "multitask_sklearn" -> {"MultiTaskBCD", "MultiTaskBCD_noacc", "MultiTaskLasso"}
    [] r = "grouplasso_celer" -> {"GroupBCD", "GroupBCD_fixpoint", "GroupLasso"}
    [] r = "quantile_linprog" -> {"PDCD_WS"}
    [] r = "sqrtlasso_fixedpoint" -> {"ProxNewton", "PDCD_WS", "SqrtLasso"}
Critical == {"L1", "L1_plus_L2", "WeightedL1", "WeightedL1_zeros", "MCPenalty", "WeightedMCPenalty", "GroupLasso",
             "GroupLasso_weights", "MultiTask", "Logistic_L1", "LogisticGroup"}
CritSolvers(c) ==
  CASE c \in {"L1", "L1_plus_L2", "WeightedL1", "WeightedL1_zeros", "MCPenalty", "WeightedMCPenalty"} -> {"AndersonCD", "GramCD", "FISTA", "estimator"}
    [] c \in {"GroupLasso", "GroupLasso_weights"} -> {"GroupBCD", "estimator"}
    [] c = "MultiTask" -> {"MultiTaskBCD", "estimator"}
    [] c = "Logistic_L1" -> {"ProxNewton", "AndersonCD", "estimator"}
    [] c = "LogisticGroup" -> {"GroupBCD", "GroupProxNewton"}

Applicable(sym, s) ==
  CASE sym \in {"perm_groups", "perm_within_group"} -> s \in {"GroupBCD", "GroupBCD_SparseGroup", "GroupProxNewton"}
    [] sym = "perm_tasks" -> s = "MultiTaskBCD"
    [] sym = "perm_features_weights" -> s \in {"AndersonCD_WeightedL1", "ProxNewton_WeightedL1"}
    [] sym = "scale_feature_weight" -> s = "AndersonCD_WeightedL1"
    [] sym = "scale_y_alpha" -> s \in {"AndersonCD_L1", "GramCD", "FISTA", "GroupBCD", "GroupBCD_SparseGroup", "MultiTaskBCD", "AndersonCD_WeightedL1"}
    [] sym = "perm_features" -> s \notin {"AndersonCD_WeightedL1", "ProxNewton_WeightedL1"}
    [] OTHER -> TRUE

VARIABLES done
Init == done = FALSE
Emit(r) == PrintT(ToJson(r))
Enumerate ==
  /\ ~done /\ done' = TRUE
  /\ CASE Family = "C14" -> \A k \in Reductions : \A st \in {"dense", "csc"} : \A fi \in BOOLEAN :
                              Emit([family |-> "C14", kind |-> k, storage |-> st, fit_intercept |-> fi])
       [] Family = "C15" -> \A k \in Symmetries : \A s \in SymSolvers : \A st \in {"dense", "csc"} : \A fi \in BOOLEAN :
                              Applicable(k, s) => Emit([family |-> "C15", kind |-> k, solver |-> s, storage |-> st, fit_intercept |-> fi])
       [] Family = "C02" -> \A r \in References : \A s \in RefSolvers(r) : \A st \in {"dense", "csc"} : \A fi \in BOOLEAN :
                              Emit([family |-> "C02", kind |-> r, solver |-> s, storage |-> st, fit_intercept |-> fi])
       [] Family = "C16" -> \A c \in Critical : \A s \in CritSolvers(c) : \A st \in {"dense", "csc"} : \A fi \in BOOLEAN :
                              Emit([family |-> "C16", kind |-> c, solver |-> s, storage |-> st, fit_intercept |-> fi])
Spec == Init /\ [][Enumerate]_done
=============================================================================
