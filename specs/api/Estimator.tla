------------------------------ MODULE Estimator ------------------------------
(***************************************************************************)
(* From constructor arguments to the DOCUMENTED objective (C11).           *)
(*                                                                         *)
(* For each ready-made estimator the class docstring states an objective;  *)
(* this module transcribes it as a descriptor                              *)
(*     [loss, penalty, params, intercept, expect]                          *)
(* -- from the documentation, not from `fit`. TLC enumerates / samples     *)
(* argument tuples; the driver fits the real estimator and the oracle      *)
(* evaluates the first-order residual of the DESCRIPTOR's objective at     *)
(* (coef_, intercept_); the RelTrace monitor judges `stationary`,          *)
(* `primal_image`, `dual_feasible`, `refused_as_documented`.               *)
(*                                                                         *)
(* Documented objectives:                                                  *)
(*  Lasso            1/(2n) ||y - Xw - b||^2 + alpha ||w||_1               *)
(*  WeightedLasso    ...                     + alpha sum_j weights_j |w_j| *)
(*  ElasticNet       ... + l1_ratio alpha ||w||_1 + (1-l1_ratio) alpha/2 ||w||^2 *)
(*  MCPRegression    ... + sum_j weights_j pen_MCP(|w_j|; alpha, gamma)    *)
(*  GroupLasso       ... + alpha sum_g weights_g ||w_[g]||_2               *)
(*  MultiTaskLasso   1/(2n) ||Y - XW - b||_F^2 + alpha ||W||_21            *)
(*  SparseLogisticRegression  1/n sum log(1+exp(-y_i (x_i w + b))) + alpha ||w||_1 *)
(*  LinearSVC        C sum max(0, 1 - y_i beta x_i) + 1/2 ||beta||^2 (dual form, beta = sum y_i w_i x_i) *)
(*  CoxEstimator     Cox partial likelihood (Efron | Breslow) / n + elastic-net(alpha, l1_ratio) *)
(*  SqrtLasso        ||y - Xw||_2 + alpha ||w||_1                          *)
(*  GeneralizedLinearEstimator(datafit, penalty, solver)  datafit + penalty *)
(***************************************************************************)
EXTENDS Integers, Sequences, FiniteSets, TLC, Json

Estimators == {"Lasso", "WeightedLasso", "ElasticNet", "MCPRegression", "GroupLasso", "MultiTaskLasso",
               "SparseLogisticRegression", "LinearSVC", "CoxEstimator", "SqrtLasso",
               "GeneralizedLinearEstimator"}
AlphaFracs == {"0.3", "0.05"}
L1Ratios == {"0", "0.3", "1"}
Cs == {"0.1", "1"}
Gammas == {"3", "10"}
WeightKinds == {"none", "random", "zeros", "wrong_length"}
GroupKinds == {"int", "sizes", "lists_permuted"}
Methods == {"efron", "breslow"}
\* "wide": n = 60, p = 80, support of 14 -- the default working set (p0 = 10) is a strict subset of the features
\* and grows; with weights = "zeros" there are more unpenalised features (26) than support and than p0
Sizes == {"small", "wide"}
\* variants of the target: SqrtLasso on nearly noiseless data (optimal residual a few percent of ||y||: the
\* documented small-residual guard is at 1 percent); CoxEstimator given a 1-d y ("times, no censoring")
Variants == {"plain", "high_snr", "y_1d"}
WideOK == {"Lasso", "WeightedLasso", "ElasticNet", "MCPRegression", "SparseLogisticRegression", "MultiTaskLasso",
           "GeneralizedLinearEstimator", "LinearSVC"}
GLEComps == {<<"Quadratic", "L1">>, <<"Huber", "L1_plus_L2">>, <<"Logistic", "L1">>, <<"Quadratic", "MCPenalty">>,
             <<"Quadratic", "WeightedL1">>, <<"Poisson", "L1">>}

HasWeights(e) == e \in {"WeightedLasso", "MCPRegression", "GroupLasso"}
HasPositive(e) == e \in {"Lasso", "WeightedLasso", "ElasticNet", "MCPRegression", "GroupLasso"}
HasIntercept(e) == e \in {"Lasso", "WeightedLasso", "ElasticNet", "MCPRegression", "GroupLasso", "MultiTaskLasso",
                          "SparseLogisticRegression", "LinearSVC", "GeneralizedLinearEstimator"}

\* the documented objective of a constructor call
Descriptor(a) ==
  LET e == a.est IN
  [ loss |-> CASE e \in {"Lasso", "WeightedLasso", "ElasticNet", "MCPRegression"} -> "Quadratic"
               [] e = "GroupLasso" -> "QuadraticGroup"
               [] e = "MultiTaskLasso" -> "QuadraticMultiTask"
               [] e = "SparseLogisticRegression" -> "Logistic"
               [] e = "LinearSVC" -> "HingeDual"
               [] e = "CoxEstimator" -> (IF a.method = "efron" THEN "CoxEfron" ELSE "CoxBreslow")
               [] e = "SqrtLasso" -> "SqrtQuadratic"
               [] OTHER -> a.gle[1],
    penalty |-> CASE e = "Lasso" -> "L1"
                  [] e = "WeightedLasso" -> (IF a.weights = "none" THEN "L1" ELSE "WeightedL1")
                  [] e = "ElasticNet" -> "L1_plus_L2"
                  [] e = "MCPRegression" -> (IF a.weights = "none" THEN "MCPenalty" ELSE "WeightedMCPenalty")
                  [] e = "GroupLasso" -> "WeightedGroupL2"
                  [] e = "MultiTaskLasso" -> "L2_1"
                  [] e = "SparseLogisticRegression" -> "L1"
                  [] e = "LinearSVC" -> "IndicatorBox"
                  [] e = "CoxEstimator" -> (IF a.l1_ratio = "1" THEN "L1" ELSE IF a.l1_ratio = "0" THEN "L2" ELSE "L1_plus_L2")
                  [] e = "SqrtLasso" -> "L1"
                  [] OTHER -> a.gle[2],
    intercept |-> (a.fit_intercept /\ HasIntercept(e) /\ e # "LinearSVC"),
    positive |-> (a.positive /\ HasPositive(e)),
    \* documented: LinearSVC(fit_intercept) "whether or not to fit an intercept"
    intercept_documented |-> (a.fit_intercept /\ HasIntercept(e)),
    expect |-> IF HasWeights(e) /\ a.weights = "wrong_length" THEN "ValueError" ELSE "fit" ]

VARIABLES stage, a
vars == <<stage, a>>
Init == stage = "est" /\ a = [est |-> "", alpha |-> "0.3", l1_ratio |-> "0.3", C |-> "1", gamma |-> "3",
                              weights |-> "none", groups |-> "int", positive |-> FALSE, fit_intercept |-> TRUE,
                              method |-> "efron", gle |-> <<"Quadratic", "L1">>, storage |-> "dense",
                              size |-> "small", variant |-> "plain"]
PickEst == stage = "est" /\ \E e \in Estimators : a' = [a EXCEPT !.est = e] /\ stage' = "args"
PickArgs == stage = "args" /\
  \E al \in AlphaFracs : \E r \in L1Ratios : \E c \in Cs : \E g \in Gammas : \E w \in WeightKinds :
  \E gk \in GroupKinds : \E p \in BOOLEAN : \E fi \in BOOLEAN : \E m \in Methods : \E k \in GLEComps :
  \E st \in {"dense", "csc"} : \E sz \in Sizes : \E vr \in Variants :
    /\ (vr = "high_snr" => a.est = "SqrtLasso") /\ (vr = "y_1d" => a.est = "CoxEstimator")
    /\ (a.est \in WideOK \/ sz = "small")
    /\ (HasWeights(a.est) \/ w = "none")
    /\ (a.est # "GroupLasso" \/ w # "wrong_length")       \* only WeightedLasso / MCPRegression check the length
    /\ (a.est \in {"ElasticNet", "CoxEstimator"} \/ r = "0.3")
    /\ (a.est = "ElasticNet" => r # "0" \/ TRUE)
    /\ (a.est = "LinearSVC" \/ c = "1")
    /\ (a.est = "MCPRegression" \/ g = "3")
    /\ (a.est = "GroupLasso" \/ gk = "int")
    /\ (HasPositive(a.est) \/ ~p)
    /\ (HasIntercept(a.est) \/ fi)
    /\ (a.est = "CoxEstimator" \/ m = "efron")
    /\ (a.est = "GeneralizedLinearEstimator" \/ k = <<"Quadratic", "L1">>)
    /\ (a.est \notin {"SqrtLasso", "GroupLasso"} \/ st = "dense")
    /\ a' = [a EXCEPT !.alpha = al, !.l1_ratio = r, !.C = c, !.gamma = g, !.weights = w, !.groups = gk,
                      !.positive = p, !.fit_intercept = fi, !.method = m, !.gle = k, !.storage = st,
                      !.size = sz, !.variant = vr]
    /\ stage' = "emit"
Emit == stage = "emit" /\ PrintT(ToJson([args |-> a, doc |-> Descriptor(a)])) /\ stage' = "done" /\ UNCHANGED a
Next == PickEst \/ PickArgs \/ Emit
Spec == Init /\ [][Next]_vars
=============================================================================
