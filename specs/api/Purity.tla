------------------------------- MODULE Purity -------------------------------
(***************************************************************************)
(* Fitting is pure (C18): histories over a pool of estimators that share   *)
(* datafit / penalty classes, on datasets of different dtype / storage.    *)
(*                                                                         *)
(* Abstract process state that could leak between fits:                    *)
(*   compiled[c]  jitclass cache per (class, spec, float32)                *)
(*   touched[c]   the Python class was walked by copy / pickle / clone     *)
(*                before its first compilation                             *)
(*   params[e]    hyper-parameters of estimator e (set_params, path and    *)
(*                reweighting rewrite them)                                *)
(*   fitted[e]    attributes left by a previous fit                        *)
(* Operations are actions. The property is the post-condition of every     *)
(* `fit`: it succeeds, leaves every input byte-identical, and gives the    *)
(* result a FRESH process gives for the same (params, data).               *)
(* TLC enumerates histories (length <= MaxLen); each one is executed in    *)
(* its own process and compared with fresh-process results.                *)
(***************************************************************************)
EXTENDS Integers, Sequences, FiniteSets, TLC, Json

CONSTANT MaxLen
Ests == {"LassoA", "LassoB", "GLE_Huber_MCP", "SparseLogReg", "Reweighted", "WeightedLasso", "GroupLasso",
         "GLE_WeightedQuadratic", "ElasticNetWarm"}
Data == {"f64", "f32", "csc"}
Ops == {"fit", "path", "set_alpha", "clone", "deepcopy", "pickle", "copy_bare_datafit", "copy_bare_penalty"}

VARIABLES hist, stage
vars == <<hist, stage>>
Init == hist = <<>> /\ stage = "build"
HasPath(e) == e \in {"LassoA", "LassoB", "WeightedLasso", "ElasticNetWarm"}
Step == /\ stage = "build" /\ Len(hist) < MaxLen
        /\ \E o \in Ops : \E e \in Ests : \E d \in Data :
             /\ (o = "path" => HasPath(e))
             /\ (o \notin {"fit", "path"} => d = "f64")
             /\ (e \in {"GroupLasso", "Reweighted"} => d # "csc")
             /\ hist' = Append(hist, [op |-> o, est |-> e, data |-> d])
        /\ UNCHANGED stage
\* every history ends with a probe fit whose result is compared with a fresh process
Probe == /\ stage = "build" /\ hist # <<>>
         /\ \E e \in Ests : \E d \in Data :
              /\ (e \in {"GroupLasso", "Reweighted"} => d # "csc")
              /\ hist' = Append(hist, [op |-> "fit", est |-> e, data |-> d])
         /\ stage' = "emit"
Emit == /\ stage = "emit" /\ PrintT(ToJson([hist |-> hist])) /\ stage' = "done" /\ UNCHANGED hist
Next == Step \/ Probe \/ Emit
Spec == Init /\ [][Next]_vars
=============================================================================
