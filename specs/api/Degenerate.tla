----------------------------- MODULE Degenerate -----------------------------
(***************************************************************************)
(* Placements of degenerate-but-legitimate structure in the data (C19).    *)
(* A scenario fixes, for the first four columns of the design, one kind    *)
(* each, a target kind, a shape class, and a solver composition; TLC       *)
(* enumerates / samples the placements, the driver instantiates numbers    *)
(* and runs the real solver in an isolated worker (a hang is observed).    *)
(* What must hold for every placement is the post-condition of Run:        *)
(*   outcome \in {"solved", "explained_error"}   and when solved:          *)
(*   finite /\ certificate /\ exactly-zero coefficient on every penalised  *)
(*   all-zero column.                                                      *)
(***************************************************************************)
EXTENDS Integers, Sequences, FiniteSets, TLC, Json

ColKinds == {"regular", "zero", "dup", "constant", "big", "tiny"}
Targets == {"regular", "zero", "constant"}
Shapes == {"tall", "wide", "single_feature", "single_group"}
Comps == { <<"AndersonCD", "Quadratic", "L1">>, <<"AndersonCD", "Quadratic", "WeightedL1">>,
           <<"AndersonCD", "Quadratic", "MCPenalty">>, <<"AndersonCD", "Logistic", "L1">>,
           <<"AndersonCD", "Huber", "L1_plus_L2">>, <<"AndersonCD", "Quadratic", "L1pos">>,
           <<"ProxNewton", "Logistic", "L1">>, <<"ProxNewton", "Poisson", "L1">>,
           <<"GroupBCD", "QuadraticGroup", "WeightedGroupL2">>, <<"GroupBCD", "LogisticGroup", "WeightedGroupL2">>,
           <<"GroupProxNewton", "LogisticGroup", "WeightedGroupL2">>,
           <<"MultiTaskBCD", "QuadraticMultiTask", "L2_1">>,
           <<"GramCD", "None", "L1">>, <<"GramCD", "None", "MCPenalty">>,
           <<"FISTA", "Quadratic", "L1">>, <<"LBFGS", "Logistic", "L2">>,
           <<"PDCD_WS", "Pinball", "L1">>, <<"PDCD_WS", "SqrtQuadratic", "L1">> }
Sparse(c) == c[1] \in {"AndersonCD", "ProxNewton", "GroupBCD", "MultiTaskBCD", "GramCD", "FISTA", "LBFGS"}
             /\ c[2] # "LogisticGroup"
Intercept(c) == c[1] \in {"AndersonCD", "ProxNewton", "GroupBCD", "GroupProxNewton", "MultiTaskBCD"}

VARIABLES stage, sc
vars == <<stage, sc>>
Init == stage = "comp" /\ sc = [solver |-> "", datafit |-> "", penalty |-> "", storage |-> "dense",
                                fit_intercept |-> FALSE, cols |-> <<>>, target |-> "regular", shape |-> "tall",
                                greedy |-> FALSE, strategy |-> "subdiff", warm |-> "none"]
\* "csc_explicit": CSC storage in which the zeros of the degenerate columns are STORED entries
PickComp == stage = "comp" /\ \E c \in Comps : \E st \in (IF Sparse(c) THEN {"dense", "csc", "csc_explicit"} ELSE {"dense"}) :
              \E b \in (IF Intercept(c) THEN BOOLEAN ELSE {FALSE}) : \E g \in BOOLEAN : \E ws \in {"subdiff", "fixpoint"} :
              /\ sc' = [sc EXCEPT !.solver = c[1], !.datafit = c[2], !.penalty = c[3], !.storage = st,
                                  !.fit_intercept = b, !.greedy = (g /\ c[1] = "GramCD"),
                                  !.strategy = (IF c[1] \in {"AndersonCD", "ProxNewton", "GroupBCD", "MultiTaskBCD"} THEN ws ELSE "subdiff")]
              /\ stage' = "cols"
PickCol == stage = "cols" /\ Len(sc.cols) < 4 /\ \E k \in ColKinds :
              sc' = [sc EXCEPT !.cols = Append(sc.cols, k)] /\ UNCHANGED stage
ColsDone == stage = "cols" /\ Len(sc.cols) = 4 /\ stage' = "target" /\ UNCHANGED sc
\* warm = "on_degenerate": the start has non-zero coefficients on the degenerate columns (e.g. a warm_start
\* refit on data where a feature became identically zero): a penalised coefficient on an all-zero column
\* must still come back exactly 0
\* (only where 0 is the unique minimiser of the penalty of a null column and the solver takes proximal steps:
\* a coefficient in the flat region of MCP is a stationary point, and L-BFGS reaches 0 only in the limit)
ConvexAtZero == {"L1", "WeightedL1", "L1_plus_L2", "L1pos", "WeightedGroupL2", "L2_1"}
Warms == IF sc.penalty \in ConvexAtZero /\ sc.solver # "LBFGS" THEN {"none", "on_degenerate"} ELSE {"none"}
PickTarget == stage = "target" /\ \E t \in Targets : \E s \in Shapes : \E w \in Warms :
              sc' = [sc EXCEPT !.target = t, !.shape = s, !.warm = w] /\ stage' = "emit"
Emit == stage = "emit" /\ PrintT(ToJson(sc)) /\ stage' = "done" /\ UNCHANGED sc
Next == PickComp \/ PickCol \/ ColsDone \/ PickTarget \/ Emit
Spec == Init /\ [][Next]_vars
WellFormed == stage = "done" => Len(sc.cols) = 4 /\ (sc.storage # "dense" => Sparse(<<sc.solver, sc.datafit, sc.penalty>>))
=============================================================================
