------------------------------ MODULE Reweight ------------------------------
(***************************************************************************)
(* Iterative reweighting (skglm.experimental.IterativeReweightedL1) as a   *)
(* majorise-minimise state machine -- the last sentence of C03: "iterative *)
(* reweighting never increases the non-convex objective it majorises".     *)
(*                                                                         *)
(* DESIGN LEVEL (model-checked exhaustively on a one-dimensional lattice): *)
(*   state   w   current coefficient (integer lattice point in -M..M)      *)
(*           k   number of surrogates solved                               *)
(*   the non-convex objective   F(w)  = Loss(w) + Pen(|w|)                 *)
(*   the surrogate at the point v     Q(w; v) = Loss(w) + Pen(|v|) + D(v) (|w| - |v|)        *)
(*   where D(v) is the weight the code takes from `penalty.derivative(v)`. *)
(*   Action Reweight:  w' = a minimiser of Q(.; w) over the lattice.       *)
(*   Pen is concave in |w|, so Q(.; v) majorises F with equality at v      *)
(*   exactly when D(v) is a SUPERGRADIENT of Pen at |v| -- a weight, hence *)
(*   non-negative and independent of the sign of v. The constant DerivKind *)
(*   selects what `derivative` returns:                                    *)
(*     "wrt_abs"     d Pen / d|w|        (what L0_5 and L2_3 implement)    *)
(*     "wrt_signed"  sign(w) d Pen / d|w| (what LogSumPenalty implemented  *)
(*                   at the pinned commit: negative weights for w < 0)     *)
(*   Invariant Descent: F never increases along Reweight steps. TLC proves *)
(*   it for "wrt_abs" and finds the counterexample for "wrt_signed".       *)
(*                                                                         *)
(* SCENARIO LEVEL: Emit enumerates the catalogue of real runs (penalty x   *)
(* eps x number of reweights x strength x data class x sign pattern of the *)
(* true coefficients x storage); the driver (harness/checks/reweight.py)   *)
(* executes each on the real estimator, observes every surrogate solve,    *)
(* and the RelTrace monitor judges  rw_descent  (true objective of         *)
(* successive iterates),  rw_hist_true  (loss_history_ entries are the     *)
(* true objective) and  rw_weights_valid  (the weights handed to the       *)
(* surrogate are non-negative supergradients).                             *)
(***************************************************************************)
EXTENDS Integers, Sequences, FiniteSets, TLC, Json

CONSTANTS M,           \* lattice -M..M
          Targets,     \* set of targets y + M (a cfg cannot hold negative numbers): Loss(w) = 4 (w - y)^2
          DerivKind,   \* "wrt_abs" | "wrt_signed"
          MaxK,
          Mode         \* "design" | "scenarios"

Abs(x) == IF x < 0 THEN -x ELSE x
Sign(x) == IF x < 0 THEN -1 ELSE IF x > 0 THEN 1 ELSE 0
\* a concave penalty of |w| on the lattice, scaled by 8: Pen(a) = 8 * (table), increments 8, 4, 2, 1, 1, 1 ...
\* (decreasing increments = concave); D(a) = a supergradient at a = the increment to the right of a
PenTab == <<0, 8, 12, 14, 15, 16, 17, 18, 19>>          \* PenTab[a + 1] for a = 0..8
Pen(a) == PenTab[a + 1]
Slope(a) == IF a + 2 <= Len(PenTab) THEN PenTab[a + 2] - PenTab[a + 1] ELSE 1    \* right increment: supergradient
D(v) == IF DerivKind = "wrt_abs" THEN Slope(Abs(v))
        ELSE IF v = 0 THEN Slope(0) ELSE Sign(v) * Slope(Abs(v))

VARIABLES y, w, k, stage
vars == <<y, w, k, stage>>

Loss(v) == 4 * (v - y) * (v - y)
F(v) == Loss(v) + Pen(Abs(v))
Q(v, at) == Loss(v) + Pen(Abs(at)) + D(at) * (Abs(v) - Abs(at))
Lattice == (-M)..M
ArgMinQ(at) == {v \in Lattice : \A u \in Lattice : Q(v, at) <= Q(u, at)}

\* ---- scenario catalogue
Pens == {"L0_5", "L2_3", "LogSum_0.1", "LogSum_1"}
NRew == {2, 5}
Alphas == {"0.3", "0.05"}
DataKinds == {"tall", "wide"}
Signs == {"positive", "mixed", "negative"}
Storages == {"dense", "csc"}

Init == /\ y \in {t - M : t \in Targets} /\ w \in Lattice /\ k = 0
        /\ stage = (IF Mode = "design" THEN "run" ELSE "emit")
Reweight == /\ stage = "run" /\ k < MaxK
            /\ w' \in ArgMinQ(w) /\ k' = k + 1 /\ UNCHANGED <<y, stage>>
Emit == /\ stage = "emit"
        /\ \A p \in Pens : \A n \in NRew : \A a \in Alphas : \A d \in DataKinds : \A s \in Signs : \A st \in Storages :
             PrintT(ToJson([penalty |-> p, n_reweights |-> n, alpha |-> a, data |-> d, signs |-> s, storage |-> st]))
        /\ stage' = "done" /\ UNCHANGED <<y, w, k>>
Next == Reweight \/ Emit
Spec == Init /\ [][Next]_vars

\* C03, last sentence, as an action property: a reweighting step never increases F
Descent == [][stage = "run" => F(w') <= F(w)]_vars
\* the surrogate is a majoriser touching F at the current point (what makes Descent a theorem)
Majorises == stage = "run" => /\ Q(w, w) = F(w)
                              /\ \A v \in Lattice : Q(v, w) >= F(v)
=============================================================================
