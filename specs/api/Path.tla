-------------------------------- MODULE Path --------------------------------
(***************************************************************************)
(* Warm starts, regularisation paths and warm_start refits as histories.   *)
(*                                                                         *)
(* Abstract state carried from one solve to the next (as in                *)
(* AndersonCD.path, MultiTaskBCD.path, _glm_fit with solver.warm_start,    *)
(* and user loops reusing w / Xw):                                         *)
(*     cur   index of the regularisation strength of the last solve        *)
(*     fi    whether an intercept is fitted                                *)
(*     cons  the fit buffer equals X w + b for the coefficients carried    *)
(*     cert  the last result is certified FOR ITS OWN problem              *)
(* Each operation is one action. What the property (C05) demands is the    *)
(* post-condition of every action: cons' /\ cert' -- whatever the history. *)
(* The driver executes each emitted history on the real entry point and    *)
(* the SolverTrace monitor judges every step (clauses cert, buffer).       *)
(***************************************************************************)
EXTENDS Integers, Sequences, FiniteSets, TLC, Json

CONSTANTS MaxLen

Entries == {"AndersonCD.solve", "AndersonCD.path", "MultiTaskBCD.path", "MultiTaskLasso.path", "MultiTaskLasso.refit",
            "Lasso.path", "ElasticNet.path",
            "MCPRegression.path", "WeightedLasso.path", "Lasso.refit", "ElasticNet.refit",
            "SparseLogisticRegression.refit", "LinearSVC.refit", "GroupLasso.refit", "SqrtLasso.path", "ProxNewton.solve",
            "GroupBCD.solve"}
\* index into a decreasing grid of fractions of alpha_max; index 1 lies ABOVE the critical strength: its solution is
\* the null model (zero coefficients, loss-minimising intercept) -- the usual first point of a top-down path, and
\* a start whose support is empty while its intercept is not
Alphas == 1..5
WarmShapes == {"none", "zero", "random", "bigsupp", "intercept_only", "reuse"}
Orders == {"dec", "inc", "shuffled"}
Inits == {"none", "zero", "random", "intercept_only", "task_sparse"}   \* task_sparse: rows that are zero for the first task only
\* new_labels / new_rows: a warm_start estimator refitted on other data starts from the previous coefficients
Changes == {"alpha_down", "alpha_up", "same", "toggle_intercept", "alpha_down_far", "alpha_to_null", "new_labels",
            "new_rows"}

IsSolve(e) == e \in {"AndersonCD.solve", "ProxNewton.solve", "GroupBCD.solve"}
IsPath(e) == e \in {"AndersonCD.path", "MultiTaskBCD.path", "MultiTaskLasso.path", "Lasso.path", "ElasticNet.path",
                    "MCPRegression.path", "WeightedLasso.path", "SqrtLasso.path"}
IsRefit(e) == ~IsSolve(e) /\ ~IsPath(e)

VARIABLES entry, fi, hist, cur, cons, cert, stage
vars == <<entry, fi, hist, cur, cons, cert, stage>>

Init == /\ entry \in Entries /\ fi \in BOOLEAN
        /\ hist = <<>> /\ cur = 0 /\ cons = TRUE /\ cert = TRUE /\ stage = "build"

\* a direct solve: fresh start of some shape, or reusing the buffers left by the previous solve
Solve == /\ stage = "build" /\ IsSolve(entry) /\ Len(hist) < MaxLen
         /\ \E a \in Alphas : \E w \in WarmShapes :
              /\ (w = "reuse" => hist # <<>>)
              /\ (w = "intercept_only" => fi)
              /\ hist' = Append(hist, [op |-> "solve", a |-> a, warm |-> w])
              /\ cur' = a
         /\ cons' = TRUE /\ cert' = TRUE
         /\ UNCHANGED <<entry, fi, stage>>

\* one call of path() over a grid in some order, from some coef_init
PathCall == /\ stage = "build" /\ IsPath(entry) /\ Len(hist) < 1
            /\ \E o \in Orders : \E i \in Inits : \E n \in 2..5 :
                 /\ (i = "intercept_only" => fi)
                 /\ hist' = Append(hist, [op |-> "path", order |-> o, init |-> i, n |-> n])
                 /\ cur' = n
            /\ cons' = TRUE /\ cert' = TRUE
            /\ UNCHANGED <<entry, fi, stage>>

\* estimator with solver.warm_start = True: fit, change hyper-parameters, fit again
Refit == /\ stage = "build" /\ IsRefit(entry) /\ Len(hist) < MaxLen
         /\ \E c \in Changes :
              /\ (hist = <<>> => c = "same")
              /\ hist' = Append(hist, [op |-> "fit", change |-> c])
              /\ cur' = (IF c = "alpha_down" /\ cur < 5 THEN cur + 1 ELSE IF c = "alpha_up" /\ cur > 1 THEN cur - 1
                         ELSE IF c = "alpha_down_far" THEN 5 ELSE IF c = "alpha_to_null" THEN 1
                         ELSE IF cur = 0 THEN 2 ELSE cur)
              /\ fi' = (IF c = "toggle_intercept" THEN ~fi ELSE fi)
         /\ cons' = TRUE /\ cert' = TRUE
         /\ UNCHANGED <<entry, stage>>

Emit == /\ stage = "build" /\ hist # <<>>
        /\ PrintT(ToJson([entry |-> entry, fit_intercept |-> fi, hist |-> hist]))
        /\ stage' = "done" /\ UNCHANGED <<entry, fi, hist, cur, cons, cert>>

Next == Solve \/ PathCall \/ (Refit /\ UNCHANGED <<>>) \/ Emit
Spec == Init /\ [][Next]_vars

\* C05 at design level: every reachable carried state is consistent and certified for its own problem
WarmSound == cons /\ cert
=============================================================================
