----------------------------- MODULE Classifier -----------------------------
(***************************************************************************)
(* Label encoding, one-vs-rest assembly and prediction laws (C12).         *)
(*                                                                         *)
(* Abstract model of _glm_fit for classifiers:                             *)
(*   classes   = sorted distinct labels                                    *)
(*   K = 2     : internal target = +1 for classes[2], -1 for classes[1];   *)
(*               one row (coef, intercept); decision > 0 <=> classes[2]    *)
(*   K > 2     : row k = the binary model "class k against the rest",      *)
(*               intercept included; prediction = argmax of decisions      *)
(* A renaming of the labels is a bijection on the label names: if it       *)
(* preserves the order of the names nothing but the names may change; if   *)
(* it reverses the order of a binary problem the single row changes sign.  *)
(* The laws below are what the driver's observations are judged against;   *)
(* TLC generates the scenarios (label alphabet, number of classes,         *)
(* renaming, estimator, intercept) and checks the model's own consistency  *)
(* (Rename of a sorted tuple) as invariants.                               *)
(***************************************************************************)
EXTENDS Integers, Sequences, FiniteSets, TLC, Json

Alphabets == {"strings", "ints_arbitrary", "pm1", "zero_one", "bools"}
Estimators == {"SparseLogisticRegression", "LinearSVC", "GLE_Logistic", "GLE_SVC"}
Renamings == {"none", "order_preserving", "order_reversing", "shuffle"}
\* how the fit on the renamed labels is made: by a fresh estimator, or by RE-FITTING the same object whose solver
\* warm-starts from the previous coefficients (binary estimators; the laws are about the fitted model, not its past)
Refits == {"fresh", "same_object_warm"}
\* "null_imbalanced": classes in proportion 4:1 and a regularisation above the critical strength, so that the fitted
\* model is the intercept alone (the log-odds): which label is encoded +1 then decides the SIGN of everything the
\* solver sees, and a renaming that reverses the order must give exactly the negated model
Regimes == {"regular", "null_imbalanced"}

VARIABLES stage, sc
vars == <<stage, sc>>
Init == stage = "pick" /\ sc = [est |-> "", alphabet |-> "", k |-> 2, fit_intercept |-> TRUE,
                                rename |-> "none", storage |-> "dense", refit |-> "fresh", regime |-> "regular"]
Pick == /\ stage = "pick"
        /\ \E e \in Estimators : \E a \in Alphabets : \E k \in 2..4 : \E fi \in BOOLEAN : \E r \in Renamings :
           \E st \in {"dense", "csc"} : \E rf \in Refits : \E rg \in Regimes :
             /\ (rg = "null_imbalanced" => k = 2 /\ fi /\ e \in {"SparseLogisticRegression", "GLE_Logistic"}
                                            /\ r \in {"order_reversing", "order_preserving"} /\ rf = "fresh")
             /\ (rf = "same_object_warm" => r # "none" /\ k = 2)
             /\ (a \in {"pm1", "zero_one", "bools"} => k = 2)
             /\ (e \in {"LinearSVC", "GLE_SVC"} => ~fi)        \* no intercept in the dual formulation
             /\ sc' = [est |-> e, alphabet |-> a, k |-> k, fit_intercept |-> fi, rename |-> r, storage |-> st,
                        refit |-> rf, regime |-> rg]
             /\ stage' = "emit"
\* expected effect of the renaming on the fitted rows, per the model
Effect == IF sc.rename \in {"none", "order_preserving"} THEN "rows_unchanged"
          ELSE IF sc.k = 2 /\ sc.rename = "order_reversing" THEN "row_negated"
          ELSE "rows_permuted"
Emit == stage = "emit" /\ PrintT(ToJson([sc |-> sc, effect |-> Effect])) /\ stage' = "done" /\ UNCHANGED sc
Next == Pick \/ Emit
Spec == Init /\ [][Next]_vars
WellFormed == stage # "pick" => (sc.alphabet \in {"pm1", "zero_one", "bools"} => sc.k = 2)
=============================================================================
