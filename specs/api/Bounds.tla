------------------------------- MODULE Bounds -------------------------------
(***************************************************************************)
(* Index expressions of the compiled kernels and of the Python loops that  *)
(* call penalties, as arithmetic on array LENGTHS (C20).                   *)
(*                                                                         *)
(* Arrays:  w has P + FI entries (FI = 1 when an intercept is stored in    *)
(* w[-1]), Xw has N, per-feature constants have P, per-group constants     *)
(* have G, a group g owns GrpIdx[g] \subseteq 0..P-1.                      *)
(* Each access site is a record [site, arr (length), idx (set of indices   *)
(* read or written)]. InBounds: every index is inside its array.           *)
(* The constants name the slicing conventions; *_asis configs set them to  *)
(* what the code does, so that TLC exhibits the access that leaves its     *)
(* array; the driver replays those shapes under NUMBA_BOUNDSCHECK=1.       *)
(***************************************************************************)
EXTENDS Integers, FiniteSets, Sequences, TLC

CONSTANTS MaxP, MaxG,
          LineSearchSlice,    \* "n_features": penalty.value(w[:n_features]) ; "minus1": penalty.value(w[:-1])
          CDLipschitzPer      \* "feature": lipschitz has P entries ; "group": the datafit returns G entries but
                              \* a per-feature solver indexes it with feature indices

VARIABLES P, FI, G, grp, site
vars == <<P, FI, G, grp, site>>

\* all ways of cutting 0..P-1 into G contiguous non-empty groups is enough for lengths
Partitions(p, g) == {f \in [0..(p - 1) -> 0..(g - 1)] :
                       /\ \A k \in 0..(g - 1) : \E j \in 0..(p - 1) : f[j] = k
                       /\ \A j \in 0..(p - 2) : f[j] <= f[j + 1]}
Init == /\ P \in 1..MaxP /\ FI \in {0, 1} /\ G \in 1..MaxG /\ G <= P
        /\ grp \in Partitions(P, G)
        /\ site = [name |-> "none", len |-> 1, idx |-> {0}]

GroupIdx(g) == {j \in 0..(P - 1) : grp[j] = g}
Sites ==
  { \* penalty called on the coefficients without the intercept
    [name |-> "group penalty value in line search", 
     len |-> (IF LineSearchSlice = "n_features" THEN P ELSE P + FI - 1),
     idx |-> UNION {GroupIdx(g) : g \in 0..(G - 1)}],
    \* coordinate solver reading its Lipschitz constants per feature
    [name |-> "lipschitz[j] in a per-feature epoch",
     len |-> (IF CDLipschitzPer = "feature" THEN P ELSE G), idx |-> 0..(P - 1)],
    \* intercept stored last
    [name |-> "w[-1] when fit_intercept", len |-> P + FI, idx |-> (IF FI = 1 THEN {P} ELSE {})],
    \* block solver reading per-group constants
    [name |-> "lipschitz[g] in a block epoch", len |-> G, idx |-> 0..(G - 1)],
    \* scores of working-set groups are stored by position, sized by the number of groups
    [name |-> "dist[idx] for idx over a working set", len |-> G, idx |-> 0..(G - 1)] }

Access == \E s \in Sites : site' = s /\ UNCHANGED <<P, FI, G, grp>>
Spec == Init /\ [][Access]_vars
InBounds == \A i \in site.idx : 0 <= i /\ i < site.len
=============================================================================
