--------------------------- MODULE SolverScenario ---------------------------
(***************************************************************************)
(* The controllable part of one solver run, as a TLA+ state space.         *)
(*                                                                         *)
(* A scenario is built knob by knob (one action per knob), so that         *)
(*   - `tlc -simulate` draws uniformly random scenarios (seeded), and      *)
(*   - BFS under the constraint of a .cfg enumerates a sub-space           *)
(*     exhaustively.                                                       *)
(* The final action Emit prints the scenario as JSON; the Python driver    *)
(* instantiates numeric data from (VERIF_SEED, scenario) and runs the real *)
(* solver under the tracer; the trace is judged by SolverTrace.            *)
(*                                                                         *)
(* Budgets are placed around the periods of the code: AndersonAcceleration  *)
(* (K = 5) stores six iterates and extrapolates on its 7th call, then       *)
(* starts over: extrapolations happen in the 7th, 14th, 21st epoch of a     *)
(* working set; the inner optimality check runs every 10 epochs. So 6,7,8 / *)
(* 13,14,15 / 20,21,22 epochs end just before / on / after an extrapolation.*)
(* MultiTaskBCD carries its own inline acceleration with period K + 1 = 6   *)
(* (extrapolation in the 6th, 12th, 18th epoch): 5,6,7 / 12 / 18 cover it.  *)
(***************************************************************************)
EXTENDS Integers, Sequences, FiniteSets, TLC, Json

CONSTANT Focus      \* "C01" | "C03" | "C04" | "C17" | "C19" | "ALL"

\* ---- which compositions are meaningful (a transcription of the solvers' docstrings / examples)
Solvers == {"AndersonCD", "ProxNewton", "GroupBCD", "GroupProxNewton", "MultiTaskBCD", "GramCD",
            "LBFGS", "FISTA", "PDCD_WS"}
DescentSolvers == {"AndersonCD", "ProxNewton", "GroupBCD", "GroupProxNewton", "MultiTaskBCD", "GramCD"}
CertSolvers == DescentSolvers \cup {"LBFGS"}

ScalarPen == {"L1", "L1_plus_L2", "WeightedL1", "MCPenalty", "WeightedMCPenalty", "SCAD",
              "PositiveConstraint", "L1pos", "L1_plus_L2pos", "WeightedL1pos", "MCPpos",
              "WeightedMCPpos", "IndicatorBox"}
NonConvexPen == {"MCPenalty", "WeightedMCPenalty", "SCAD", "MCPpos", "WeightedMCPpos",
                 "BlockMCPenalty", "BlockSCAD"}
ConstrPen == {"PositiveConstraint", "L1pos", "L1_plus_L2pos", "WeightedL1pos", "MCPpos",
              "WeightedMCPpos", "IndicatorBox", "WeightedGroupL2pos"}

Datafits(s) ==
  CASE s = "AndersonCD"      -> {"Quadratic", "WeightedQuadratic", "Logistic", "Huber", "QuadraticSVC"}
    [] s = "ProxNewton"      -> {"Logistic", "Poisson", "Gamma", "Quadratic", "Cox", "CoxEfron"}
    [] s = "GroupBCD"        -> {"QuadraticGroup", "LogisticGroup"}
    [] s = "GroupProxNewton" -> {"LogisticGroup"}
    [] s = "MultiTaskBCD"    -> {"QuadraticMultiTask"}
    [] s = "GramCD"          -> {"None"}
    [] s = "LBFGS"           -> {"Logistic", "Quadratic", "Poisson", "Cox"}
    [] s = "FISTA"           -> {"Quadratic", "Logistic", "Huber", "QuadraticSVC"}
    [] s = "PDCD_WS"         -> {"SqrtQuadratic", "Pinball"}

Penalties(s, d) ==
  CASE d = "QuadraticSVC"                    -> {"IndicatorBox"}
    [] s \in {"GroupBCD", "GroupProxNewton"} -> {"WeightedGroupL2", "WeightedGroupL2pos"}
                                                \cup (IF s = "GroupBCD" THEN {"WeightedL1GroupL2"} ELSE {})
    [] s = "MultiTaskBCD"                    -> {"L2_1", "BlockMCPenalty", "BlockSCAD"}
    [] s = "LBFGS"                           -> {"L2"}
    [] s = "GramCD"                          -> {"L1", "WeightedL1", "L1_plus_L2", "MCPenalty", "L1pos", "SCAD"}
    [] s = "PDCD_WS"                         -> {"L1"}
    [] s = "FISTA"                           -> {"L1", "L1_plus_L2", "WeightedL1", "MCPenalty", "L1pos"}
    [] OTHER                                 -> ScalarPen

HasIntercept(s, d) == s \in {"AndersonCD", "ProxNewton", "GroupBCD", "GroupProxNewton", "MultiTaskBCD"}
                      /\ d \notin {"QuadraticSVC", "Cox", "CoxEfron"}
HasSparse(s, d) == s \in {"AndersonCD", "ProxNewton", "GroupBCD", "MultiTaskBCD", "GramCD", "FISTA", "LBFGS"}
                   /\ d \notin {"Gamma", "Cox", "CoxEfron", "LogisticGroup"} /\ ~(s = "LBFGS" /\ d = "Quadratic")
HasStrategy(s) == s \in {"AndersonCD", "ProxNewton", "GroupBCD", "MultiTaskBCD", "FISTA"}
HasP0(s) == s \in {"AndersonCD", "ProxNewton", "GroupBCD", "GroupProxNewton", "MultiTaskBCD", "PDCD_WS"}
HasEpochs(s) == s \in {"AndersonCD", "GroupBCD", "MultiTaskBCD", "PDCD_WS"}

\* ---- knob domains
MaxIters == {0, 1, 2, 3, 8, 50}
MaxEpochs == {1, 2, 5, 6, 7, 8, 11, 12, 13, 14, 15, 18, 20, 21, 22, 25, 200}
P0s == {"1", "2", "10", "p", "10p"}
Tols == {"1e-3", "1e-4", "1e-5"}
Warms == {"none", "zero", "random", "bigsupp", "intercept_only"}
Weights == {"unit", "random", "zeros"}          \* for weighted penalties: zeros => unpenalised features
\* "big": n = 60, p = 120, AR(0.9): many working sets of changing composition (p >> p0)
\* "contrast": every column sums exactly to zero (contrast coding): X^T 1 = 0
DataKinds == {"tall", "wide", "corr98", "corr98wide", "big", "contrast"}
AlphaFracs == {"0.5", "0.1", "0.01"}

FocusSolvers == CASE Focus = "C01" -> CertSolvers
                  [] Focus = "C03" -> DescentSolvers
                  [] Focus = "C04" -> Solvers \ {"LBFGS", "MultiTaskBCD", "PDCD_WS"}
                  [] OTHER -> Solvers
FocusPen(P) == CASE Focus = "C04" -> P \cap ConstrPen
                 [] OTHER -> P
\* C01 is about runs that CLAIM convergence: budgets under which most runs reach their tolerance (the
\* short budgets around the extrapolation period belong to C03 / C04 / C17)
FocusIters == IF Focus = "C01" THEN {3, 8, 50} ELSE MaxIters
FocusEpochs == IF Focus = "C01" THEN {7, 14, 25, 200} ELSE MaxEpochs

VARIABLES stage, sc
vars == <<stage, sc>>
Stages == <<"solver", "datafit", "penalty", "storage", "intercept", "strategy", "p0", "iters",
            "epochs", "tol", "warm", "weights", "data", "alpha", "acc", "emit", "done">>
NextStage(s) == Stages[(CHOOSE i \in 1..Len(Stages) : Stages[i] = s) + 1]

Init == stage = "solver" /\ sc = [solver |-> "", datafit |-> "", penalty |-> "", storage |-> "dense",
                                  fit_intercept |-> FALSE, strategy |-> "subdiff", p0 |-> "p",
                                  max_iter |-> 50, max_epochs |-> 200, tol |-> "1e-5", warm |-> "none",
                                  weights |-> "unit", data |-> "tall", alpha |-> "0.1",
                                  use_acc |-> TRUE, greedy |-> FALSE]
Set(f, v) == sc' = [sc EXCEPT ![f] = v] /\ stage' = NextStage(stage)

PickSolver == stage = "solver" /\ \E s \in FocusSolvers : Set("solver", s)
PickDatafit == stage = "datafit" /\ \E d \in Datafits(sc.solver) :
                 FocusPen(Penalties(sc.solver, d)) # {} /\ Set("datafit", d)
PickPenalty == stage = "penalty" /\ \E p \in FocusPen(Penalties(sc.solver, sc.datafit)) : Set("penalty", p)
PickStorage == stage = "storage" /\ \E st \in (IF HasSparse(sc.solver, sc.datafit) THEN {"dense", "csc"} ELSE {"dense"}) :
                 Set("storage", st)
PickIntercept == stage = "intercept" /\ \E b \in (IF HasIntercept(sc.solver, sc.datafit) THEN BOOLEAN ELSE {FALSE}) :
                 Set("fit_intercept", b)
PickStrategy == stage = "strategy" /\ \E w \in (IF HasStrategy(sc.solver) /\ sc.penalty # "WeightedL1GroupL2" /\ sc.penalty # "SLOPE"
                                                  THEN {"subdiff", "fixpoint"}
                                                  ELSE IF sc.penalty = "WeightedL1GroupL2" \/ sc.penalty = "SLOPE" THEN {"fixpoint"} ELSE {"subdiff"}) :
                 Set("strategy", w)
PickP0 == stage = "p0" /\ \E q \in (IF HasP0(sc.solver) THEN P0s ELSE {"p"}) : Set("p0", q)
PickIters == stage = "iters" /\ \E n \in FocusIters : Set("max_iter", n)
PickEpochs == stage = "epochs" /\ \E n \in (IF HasEpochs(sc.solver) THEN FocusEpochs ELSE {200}) : Set("max_epochs", n)
PickTol == stage = "tol" /\ \E t \in Tols : Set("tol", t)
\* a start outside the feasible set is legitimate (e.g. a warm_start refit after shrinking the box)
PickWarm == stage = "warm" /\ \E w \in ((IF sc.fit_intercept THEN Warms ELSE Warms \ {"intercept_only"})
                                        \cup (IF sc.penalty \in ConstrPen THEN {"infeasible"} ELSE {})) : Set("warm", w)
PickWeights == stage = "weights" /\ \E w \in (IF sc.penalty \in {"WeightedL1", "WeightedL1pos", "WeightedMCPenalty", "WeightedMCPpos",
                                                                   "WeightedGroupL2", "WeightedGroupL2pos", "WeightedL1GroupL2"}
                                               THEN Weights ELSE {"unit"}) : Set("weights", w)
PickData == stage = "data" /\ \E k \in DataKinds : Set("data", k)
PickAlpha == stage = "alpha" /\ \E a \in AlphaFracs : Set("alpha", a)
PickAcc == stage = "acc" /\ \E a \in BOOLEAN : \E g \in (IF sc.solver = "GramCD" THEN BOOLEAN ELSE {FALSE}) :
             sc' = [sc EXCEPT !.use_acc = a, !.greedy = g] /\ stage' = NextStage(stage)
Emit == stage = "emit" /\ PrintT(ToJson(sc)) /\ stage' = "done" /\ UNCHANGED sc

Next == PickSolver \/ PickDatafit \/ PickPenalty \/ PickStorage \/ PickIntercept \/ PickStrategy \/ PickP0
        \/ PickIters \/ PickEpochs \/ PickTol \/ PickWarm \/ PickWeights \/ PickData \/ PickAlpha \/ PickAcc \/ Emit
Spec == Init /\ [][Next]_vars

\* well-formedness of every emitted scenario (checked by TLC while generating)
WellFormed == stage = "done" =>
    /\ sc.solver \in Solvers /\ sc.datafit \in Datafits(sc.solver)
    /\ sc.penalty \in Penalties(sc.solver, sc.datafit)
    /\ (sc.storage = "csc" => HasSparse(sc.solver, sc.datafit))
    /\ (sc.fit_intercept => HasIntercept(sc.solver, sc.datafit))
=============================================================================
