----------------------------- MODULE SolverTrace -----------------------------
(***************************************************************************)
(* Trace specification for one call of BaseSolver.solve (any skglm solver).*)
(*                                                                         *)
(* A batch file (env TRACE_FILE) holds many traces.  Every number in a     *)
(* trace is the dense RANK of an observed float (harness/ranks.py): TLC    *)
(* only ever compares.  Hooks log state; the oracle (harness/oracle, a     *)
(* mirror of specs/math) recomputes truth from X, y and the coefficients   *)
(* alone; this module judges.                                              *)
(*                                                                         *)
(* Monitor style: every event is consumed by exactly one action; a guard   *)
(* that fails does not disable the action but records <<clause, position>> *)
(* in `bad`, so the verdict is total and names the failing clause.         *)
(* `bad = {}` at the end  <=>  the trace is a behaviour of the solver      *)
(* state machine of specs/solvers/CDCore.tla restricted to what the        *)
(* properties state (clauses) -- implementation details (working-set size, *)
(* sweep order, the 0.3 factor, check period) are deliberately NOT pinned. *)
(*                                                                         *)
(* Clause -> property map: DESIGN.md section 4.7.                          *)
(***************************************************************************)
EXTENDS Integers, Sequences, FiniteSets, TLC, Json, IOUtils, CDSkeleton

Batch == JsonDeserialize(IOEnv.TRACE_FILE)
Traces == Batch.traces

VARIABLES tid,      \* which trace of the batch
          l,        \* cursor: next event to consume
          phase,    \* CDSkeleton phase: "new" | "outer" | "inner" | "done"
          obj,      \* oracle objective (rank) of the latest observed state
          obj0,     \* oracle objective at init
          dig,      \* digest of the latest observed coefficients
          digOuter, \* digest at the latest outer scoring
          epObj,    \* oracle objective / buffer objective / digest at the latest epoch event
          epBobj,
          epDig,
          hist,     \* values the code recorded (ranks), in order
          nws,      \* number of working sets built = outer iterations started
          moved,    \* at least one epoch happened
          bad       \* set of <<clause, position>>
vars == <<tid, l, phase, obj, obj0, dig, digOuter, epObj, epBobj, epDig, hist, nws, moved, bad>>

T == Traces[tid]
E == T.events[l]
Len_ == Len(T.events)
Is(e) == l <= Len_ /\ E.e = e
Flag(S) == bad' = bad \cup {<<c, l>> : c \in S}
If(c, name) == IF c THEN {} ELSE {name}
Step == l' = l + 1 /\ UNCHANGED tid
Descent == T.descent = 1          \* the solver is a descent method and the penalty is well-posed

Init == /\ tid \in 1..Len(Traces)
        /\ l = 1 /\ phase = "new" /\ obj = 0 /\ obj0 = 0 /\ dig = 0 /\ digOuter = 0
        /\ epObj = 0 /\ epBobj = 0 /\ epDig = 0 /\ hist = <<>> /\ nws = 0 /\ moved = FALSE
        /\ bad = {}

Skel(e) == If(SkelOK(phase, e), "skeleton")

TInit == /\ Is("init")
         /\ phase' = SkelNext(phase, "init")
         /\ obj' = E.obj /\ obj0' = E.obj /\ dig' = E.dig
         /\ Flag(Skel("init") \cup If(E.fin = 1, "finite") \cup If(E.cons = 1, "m_cons_init"))
         /\ UNCHANGED <<digOuter, epObj, epBobj, epDig, hist, nws, moved>> /\ Step

\* outer scoring: the code computed its stopping value from its bookkeeping
TOuter == /\ Is("outer")
          /\ phase' = SkelNext(phase, "outer")
          /\ digOuter' = E.dig /\ dig' = E.dig /\ obj' = E.obj
          /\ Flag(Skel("outer")
                  \cup If(E.fin = 1, "finite")
                  \cup If(~moved \/ E.feas = 1, "feasible")
                  \cup If(E.cons = 1, "m_cons")
                  \cup If(~Descent \/ E.obj_lb <= obj, "descent")
                  \* a stopping value at or below tol must certify the state it was computed on
                  \cup If(T.cert = 0 \/ E.crit > T.tol \/ E.viol <= E.vb, "cert_outer"))
          /\ UNCHANGED <<obj0, epObj, epBobj, epDig, hist, nws, moved>> /\ Step

TWs == /\ Is("ws")
       /\ phase' = SkelNext(phase, "ws")
       /\ nws' = nws + 1
       /\ Flag(Skel("ws"))
       /\ UNCHANGED <<obj, obj0, dig, digOuter, epObj, epBobj, epDig, hist, moved>> /\ Step

\* one sweep (+ intercept step), or one prox-Newton step, or one Gram epoch
TEpoch == /\ Is("epoch")
          /\ phase' = SkelNext(phase, "epoch")
          /\ obj' = E.obj /\ dig' = E.dig /\ epObj' = E.obj /\ epBobj' = E.bobj /\ epDig' = E.dig
          /\ moved' = TRUE
          /\ Flag(Skel("epoch")
                  \cup If(E.fin = 1, "finite")
                  \cup If(E.feas = 1, "feasible")
                  \cup If(E.cons = 1, "m_cons")
                  \cup If(~Descent \/ E.obj_lb <= obj, "descent"))
          /\ UNCHANGED <<obj0, digOuter, hist, nws>> /\ Step

\* after the acceptance block of the Anderson extrapolation: accepted <=> coefficients changed
TAA == /\ Is("aa")
       /\ phase' = SkelNext(phase, "aa")
       /\ obj' = E.obj /\ dig' = E.dig
       /\ LET accepted == E.dig # epDig IN
          Flag(Skel("aa")
               \cup If(E.fin = 1, "finite")
               \cup If(E.feas = 1, "feasible")
               \cup If(E.cons = 1, "m_cons")
               \cup If(~accepted \/ E.ext = 1, "m_change_without_extrapolation")
               \* accepting an extrapolated point never increases the true objective ...
               \cup If(~accepted \/ E.obj_lb <= epObj, "accept_safe")
               \* ... nor the objective of the buffers the guard itself looks at
               \cup If(~accepted \/ E.bobj_lb <= epBobj, "accept_guard")
               \cup If(~Descent \/ E.obj_lb <= obj, "descent"))
       /\ UNCHANGED <<obj0, digOuter, epObj, epBobj, epDig, hist, nws, moved>> /\ Step

\* end of an outer iteration: the code appends a value to its objective history
TRecord == /\ Is("record")
           /\ phase' = SkelNext(phase, "record")
           /\ hist' = Append(hist, E.val)
           /\ obj' = E.obj /\ dig' = E.dig
           /\ Flag(Skel("record")
                   \cup If(E.obj_lo <= E.val /\ E.val <= E.obj_hi, "hist_value")
                   \cup If(~Descent \/ E.obj_lo <= obj, "descent"))
           /\ UNCHANGED <<obj0, digOuter, epObj, epBobj, epDig, nws, moved>> /\ Step

RECURSIVE PrefixEq(_, _, _)
PrefixEq(a, b, n) == n = 0 \/ (a[n] = b[n] /\ PrefixEq(a, b, n - 1))
Min(a, b) == IF a < b THEN a ELSE b

TReturn == /\ Is("return")
           /\ phase' = SkelNext(phase, "return")
           /\ LET stopped == E.crit <= E.tol
                  nh == Len(hist)
                  shown == Len(E.objs)
              IN Flag(Skel("return")
                      \cup If(E.fin = 1, "finite")
                      \cup If(~moved \/ E.feas = 1, "feasible")
                      \cup If(T.cert = 0 \/ ~stopped \/ E.viol <= E.vb, "cert")
                      \cup If(E.same_buf = 0 \/ E.cons_buf = 1, "buffer")
                      \cup If(~Descent \/ E.obj_lb <= obj0, "start")
                      \cup If(~Descent \/ E.obj_lb <= obj, "descent")
                      \* a start that already has weight on a null column (zc0 = 0) must come back with exactly 0
                      \* there: always for the solvers whose null-column update is an exact proximal step
                      \* (zcs = 1: one epoch does it), and whenever convergence is claimed for those that only
                      \* shrink it step by step (FISTA)
                      \cup If(E.zc = 1 \/ (E.zc0 = 0 /\ E.zcs = 0 /\ ~stopped), "zero_col_zero")
                      \cup If(E.nobj = nh, "hist_len")
                      \cup If(nh = 0 \/ nh # E.nobj \/ PrefixEq(E.objs, hist, Min(shown, nh)),
                              "hist_ret")
                      \cup If(E.nobj = 0 \/ E.nobj > shown
                              \/ (E.obj_lo <= E.objs[E.nobj] /\ E.objs[E.nobj] <= E.obj_hi),
                              "hist_last")
                      \cup If(~stopped \/ T.haswouter = 0 \/ E.dig = digOuter, "crit_of_returned")
                      \cup If(T.critval = 0 \/ ~stopped \/ (E.viol_lo <= E.crit /\ E.crit <= E.viol_hi),
                              "crit_value"))
           /\ obj' = E.obj /\ dig' = E.dig
           /\ UNCHANGED <<obj0, digOuter, epObj, epBobj, epDig, hist, nws, moved>> /\ Step

\* the solver raised: judged by the API-level checks (C13/C19); here only the skeleton
TRaise == /\ Is("raise")
          /\ phase' = "done"
          /\ Flag({"raised"} \cup If(E.expl = 1, "explained_error"))
          /\ UNCHANGED <<obj, obj0, dig, digOuter, epObj, epBobj, epDig, hist, nws, moved>> /\ Step

\* the worker running the solver hung (killed by the watchdog) or died: observations of the parent
THang == /\ l <= Len_ /\ E.e \in {"hang", "died"}
         /\ phase' = "done"
         /\ Flag(IF E.e = "hang" THEN {"terminates"} ELSE {"alive"})
         /\ UNCHANGED <<obj, obj0, dig, digOuter, epObj, epBobj, epDig, hist, nws, moved>> /\ Step

Known == {"init", "outer", "ws", "epoch", "aa", "record", "return", "raise", "hang", "died"}
TUnknown == /\ l <= Len_ /\ E.e \notin Known
            /\ Flag({"skeleton"})
            /\ UNCHANGED <<phase, obj, obj0, dig, digOuter, epObj, epBobj, epDig, hist, nws, moved>>
            /\ Step

TEnd == /\ l = Len_ + 1
        /\ l' = l + 1
        /\ PrintT(ToJson([v |-> 1, id |-> T.id, n |-> Len_, done |-> (phase = "done"),
                          bad |-> {<<b[1], b[2]>> : b \in bad}]))
        /\ UNCHANGED <<tid, phase, obj, obj0, dig, digOuter, epObj, epBobj, epDig, hist, nws,
                       moved, bad>>

Next == TInit \/ TOuter \/ TWs \/ TEpoch \/ TAA \/ TRecord \/ TReturn \/ TRaise \/ THang \/ TUnknown \/ TEnd
Spec == Init /\ [][Next]_vars

\* sanity of the monitor itself (checked by TLC on every batch)
TypeOK == /\ l \in 1..(Len_ + 2)
          /\ phase \in Phases
          /\ Len(hist) <= Len_
=============================================================================
