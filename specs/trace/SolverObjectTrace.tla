------------------------- MODULE SolverObjectTrace -------------------------
(***************************************************************************)
(* Trace validation against specs/solvers/SolverObject.tla: sequences of   *)
(* solves recorded from ONE real solver object are accepted iff they are   *)
(* behaviours of the design with the constants describing the code         *)
(* (history local to a solve, parameters clamped locally, no cache keyed   *)
(* by identity). The spec's own actions are reused; a logged "Solve" line  *)
(* is Enter, then as many silent Iterate steps as the solve performed      *)
(* outer iterations, then Return, where the logged observations are bound: *)
(*   histLen      length of the objective history the solve returned       *)
(*   paramsSame   the solver's constructor attributes are what they were   *)
(*   fresh        the result equals what a fresh solver object returns on  *)
(*                the current content of the buffer                        *)
(* A batch of traces is checked in one TLC run (one initial state per      *)
(* trace); every consumed line prints the position reached, a trace is     *)
(* accepted when the position after its last line is printed. The design's *)
(* invariants are evaluated in every state of every trace.                 *)
(***************************************************************************)
EXTENDS SolverObject, Json, IOUtils

Traces == JsonDeserialize(IOEnv.TRACE_FILE).traces
VARIABLES tid, l
tvars == <<vars, tid, l>>

T == Traces[tid].events
Ev == T[l]
Progress == PrintT(ToJson([v |-> 2, id |-> Traces[tid].id, l |-> l + 1, n |-> Len(T)]))

TraceInit == Init /\ tid \in 1..Len(Traces) /\ l = 1

TRefill == /\ l <= Len(T) /\ Ev.ev = "Refill"
           /\ Refill(Ev.b)
           /\ Progress /\ l' = l + 1 /\ UNCHANGED tid

TEnter == /\ l <= Len(T) /\ Ev.ev = "Solve" /\ phase = "idle"
          /\ Enter(Ev.b)
          /\ UNCHANGED <<tid, l>>

TIterate == /\ l <= Len(T) /\ Ev.ev = "Solve" /\ phase = "run" /\ iters < Ev.iters
            /\ Iterate
            /\ UNCHANGED <<tid, l>>

TReturn == /\ l <= Len(T) /\ Ev.ev = "Solve" /\ phase = "run" /\ iters = Ev.iters
           /\ Return
           /\ ret'.histLen = Ev.histLen
           /\ (objP0 = P0) = Ev.paramsSame
           /\ (usedVer = ver[cur]) = Ev.fresh
           /\ Progress /\ l' = l + 1 /\ UNCHANGED tid

TraceNext == TRefill \/ TEnter \/ TIterate \/ TReturn
TraceSpec == TraceInit /\ [][TraceNext]_tvars
=============================================================================
