------------------------------- MODULE DataVec -------------------------------
(***************************************************************************)
(* Definition-vs-code vectors for datafits (C06; curvature part of C09).   *)
(* The driver evaluates compiled skglm datafits at exact lattice points    *)
(* (rational z for polynomial losses, z = k ln 2 for exponential ones) and *)
(* logs what each accessor returned, snapped to small rationals; TLC       *)
(* recomputes the value the documented loss demands (Datafit.tla).         *)
(***************************************************************************)
EXTENDS Datafit, TLC, Json, IOUtils

Batch == JsonDeserialize(IOEnv.TRACE_FILE)
Vecs == Batch.vectors
VARIABLES i, done
vars == <<i, done>>
V == Vecs[i]
R(q) == <<q[1], q[2]>>
RS(s) == [k \in 1..Len(s) |-> R(s[k])]
If(c, name) == IF c THEN {} ELSE {name}
OutFin == V.out.k = "fin"
OutV == R(V.out.v)
y == RS(V.y)
z == RS(V.z)
sw == RS(V.sw)
d == R(V.delta)

Bad ==
  CASE V.op = "raw_grad" -> If(OutFin /\ Eq(OutV, RawGrad(V.kind, y, z, sw, d, V.i)), "grad_eq")
    [] V.op = "raw_hess" -> If(OutFin /\ Eq(OutV, RawHess(V.kind, y, z, sw, d, V.i)), "hess_eq")
    [] V.op = "value" -> If(OutFin /\ Eq(OutV, Loss(V.kind, y, z, sw, d)), "value_eq")
    [] V.op = "icpt" ->
         LET g == InterceptGrad(V.kind, y, z, sw, d) IN
         (IF HasL0(V.kind)
          THEN If(OutFin /\ Eq(OutV, InterceptStep(V.kind, y, z, sw, d)), "intercept_step")
          ELSE {})
         \* in every case: a descent direction for b, zero exactly when the intercept is optimal
         \cup If(OutFin /\ Sign(OutV) = Sign(g), "intercept_sign")
    \* coordinate curvature bound: L_j >= second derivative along e_j = sum_i x_ij^2 h_i   (C09)
    [] V.op = "lips" ->
         LET n == Len(z)
             curv == SumQ([k \in 1..n |-> Mul(Sq(R(V.col[k])), RawHess(V.kind, y, z, sw, d, k))], n)
         IN If(OutFin /\ Leq(curv, OutV), "lipschitz_bound")
            \cup If(~(V.kind \in {"Quadratic", "WeightedQuadratic"}) \/ (OutFin /\ Eq(curv, OutV)), "lipschitz_exact")
    [] OTHER -> {"unknown_op"}

Init == i \in 1..Len(Vecs) /\ done = FALSE
Judge == /\ ~done /\ PrintT(ToJson([v |-> 2, id |-> V.id, bad |-> Bad])) /\ done' = TRUE /\ UNCHANGED i
Spec == Init /\ [][Judge]_vars
=============================================================================
