SPECIFICATION TraceSpec
CONSTANTS
  P0 = 3
  W1 = 4
  W2 = 2
  MaxIter = 100000
  MaxSolves = 100000
  MaxRefills = 100000
  HistoryOn = "local"
  ClampOn = "local"
  CacheKey = "none"
INVARIANT HistPerSolve
INVARIANT ParamsStable
INVARIANT WsFromCtor
PROPERTY FreshData
CHECK_DEADLOCK FALSE
