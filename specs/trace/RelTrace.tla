------------------------------ MODULE RelTrace ------------------------------
(***************************************************************************)
(* Generic relation monitor for API-level observations (cross-run          *)
(* relations, dominance certificates, attribute laws).                     *)
(*                                                                         *)
(* A trace is the observation of one scenario: a sequence of facts, each   *)
(* tagged with the clause it supports.  Numbers are RANKS of the observed  *)
(* floats within the trace (harness/ranks.py), so TLC decides only order   *)
(* relations; the tolerance companions (lo / hi bands) are computed by the *)
(* driver from the formulas of DESIGN.md section 5.2 and are part of the   *)
(* logged facts.                                                           *)
(*                                                                         *)
(*   [e |-> "le",   c, a, b,  when]   holds iff a <= b                     *)
(*   [e |-> "lt",   c, a, b,  when]   holds iff a <  b                     *)
(*   [e |-> "band", c, x, lo, hi, when] holds iff lo <= x <= hi            *)
(*   [e |-> "eq",   c, a, b,  when]   holds iff a = b (exactly equal floats)*)
(*   [e |-> "flag", c, ok,    when]   holds iff ok = 1                     *)
(* `when` = 0 makes the fact vacuous (antecedent false); it is counted.    *)
(* Verdict: the set of <<clause, position>> that do not hold.              *)
(***************************************************************************)
EXTENDS Integers, Sequences, FiniteSets, TLC, Json, IOUtils

Batch == JsonDeserialize(IOEnv.TRACE_FILE)
Traces == Batch.traces

VARIABLES tid, l, bad, nvac
vars == <<tid, l, bad, nvac>>
T == Traces[tid]
E == T.events[l]
Len_ == Len(T.events)

Holds(e) == CASE e.e = "le" -> e.a <= e.b
              [] e.e = "lt" -> e.a < e.b
              [] e.e = "band" -> e.lo <= e.x /\ e.x <= e.hi
              [] e.e = "eq" -> e.a = e.b
              [] e.e = "flag" -> e.ok = 1
              [] OTHER -> FALSE

Init == tid \in 1..Len(Traces) /\ l = 1 /\ bad = {} /\ nvac = 0
Fact == /\ l <= Len_
        /\ IF E.when = 0 THEN bad' = bad /\ nvac' = nvac + 1
           ELSE nvac' = nvac /\ bad' = (IF Holds(E) THEN bad ELSE bad \cup {<<E.c, l>>})
        /\ l' = l + 1 /\ UNCHANGED tid
End == /\ l = Len_ + 1 /\ l' = l + 1
       /\ PrintT(ToJson([v |-> 1, id |-> T.id, n |-> Len_, vac |-> nvac,
                         bad |-> {<<b[1], b[2]>> : b \in bad}]))
       /\ UNCHANGED <<tid, bad, nvac>>
Spec == Init /\ [][Fact \/ End]_vars
TypeOK == l \in 1..(Len_ + 2) /\ nvac <= Len_
=============================================================================
