------------------------------- MODULE PenVec -------------------------------
(***************************************************************************)
(* Definition-vs-code vectors for scalar piecewise-quadratic penalties     *)
(* (C07 prox, C08 subdifferential distance / value / support / law).       *)
(*                                                                         *)
(* The driver evaluates the COMPILED skglm penalty at every point of an    *)
(* exact rational lattice and logs what it returned (snapped to the        *)
(* lattice; "off" when the float is not within 1e-10 of a small rational). *)
(* TLC recomputes the answer the DEFINITION demands (Penalty.tla: derived  *)
(* from the piece tables) and judges each vector; one JSON verdict each.   *)
(***************************************************************************)
EXTENDS Penalty, TLC, Json, IOUtils

Batch == JsonDeserialize(IOEnv.TRACE_FILE)
Vecs == Batch.vectors

VARIABLES i, done
vars == <<i, done>>

V == Vecs[i]
R(q) == <<q[1], q[2]>>
Tab == Table(V.kind, R(V.al), R(V.ga), R(V.lr), R(V.wt), V.pos = 1)
If(c, name) == IF c THEN {} ELSE {name}

\* what the code returned, as an extended real
OutFin == V.out.k = "fin"
OutV == R(V.out.v)

ProxBad ==
  LET x == R(V.x) s == R(V.s) IN
  If(OutFin, "finite")
  \cup If(OutFin /\ OutV \in ProxSet(Tab, x, s), "prox_min")
  \cup If(~OutFin \/ Dom(Tab, OutV), "prox_feasible")

DistBad ==
  LET w == R(V.w) g == R(V.g) d == Dist(Tab, w, Neg(g)) IN
  If(IF d.k = "+inf" THEN V.out.k = "+inf" ELSE (OutFin /\ Eq(OutV, d.v)), "dist_eq")

ValueBad ==
  LET w == R(V.w) IN
  If(IF Dom(Tab, w) THEN (OutFin /\ Eq(OutV, Val(Tab, w))) ELSE V.out.k = "+inf", "value_eq")

\* C08: every fixed point of the prox-gradient map has score 0, and conversely for convex tables.
\* Checked twice: on the definition (spec_law: a theorem of the tables, validates the oracle) and on
\* the two numbers the code returned (code_law).
LawBad ==
  LET w == R(V.w) g == R(V.g) s == R(V.s)
      sfp == Dom(Tab, w) /\ w \in ProxSet(Tab, Sub(w, Mul(s, g)), s)
      sd0 == Dist(Tab, w, Neg(g)) = Fin(Zero)
      cfp == V.fp = 1
      cd0 == V.d0 = 1
  IN If((sfp => sd0) /\ (Convex(Tab) /\ sd0 => sfp), "spec_law")
     \cup If((cfp => cd0) /\ (Convex(Tab) /\ cd0 => cfp), "code_law")
     \cup If(cfp = sfp, "prox_fixed_point")
     \cup If(cd0 = sd0, "dist_zero")

\* generalised support: the penalty is differentiable at w (so the coordinate is "free")
Smooth(P, u) == ~SubEmpty(P, u) /\ LeftD(P, u).k = "fin" /\ LeftD(P, u) = RightD(P, u)
GsuppBad == If(~Dom(Tab, R(V.w)) \/ (V.flag = 1) = Smooth(Tab, R(V.w)), "m_gsupp")

\* a feature flagged as unpenalised contributes nothing to the value
Grid == {Q(k, 4) : k \in -8..8}
IspenBad == If(V.flag = 1 \/ \A u \in Grid : Dom(Tab, u) => Eq(Val(Tab, u), Zero), "unpen_zero_value")
            \cup If(V.flag = 0 \/ \E u \in Grid : ~Dom(Tab, u) \/ ~Eq(Val(Tab, u), Zero), "m_pen_flag")

Bad == CASE V.op = "prox" -> ProxBad
         [] V.op = "dist" -> DistBad
         [] V.op = "value" -> ValueBad
         [] V.op = "law" -> LawBad
         [] V.op = "gsupp" -> GsuppBad
         [] V.op = "ispen" -> IspenBad
         [] OTHER -> {"unknown_op"}

Init == i \in 1..Len(Vecs) /\ done = FALSE
Judge == /\ ~done
         /\ PrintT(ToJson([v |-> 2, id |-> V.id, bad |-> Bad]))
         /\ done' = TRUE /\ UNCHANGED i
Spec == Init /\ [][Judge]_vars
=============================================================================
