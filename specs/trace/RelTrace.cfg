SPECIFICATION Spec
INVARIANT TypeOK
CHECK_DEADLOCK FALSE
