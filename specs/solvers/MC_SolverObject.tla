-------------------------- MODULE MC_SolverObject --------------------------
(***************************************************************************)
(* Apalache wrapper of specs/solvers/SolverObject.tla: an INDUCTIVE        *)
(* invariant for the constants describing the code, so that HistPerSolve,  *)
(* ParamsStable, WsFromCtor and FreshData hold for ANY number of solves,   *)
(* refills and iterations (TLC explores 3 solves, 2 refills, 2 iterations).*)
(*   apalache-mc check --init=IndInit --inv=IndInv --length=1              *)
(*   apalache-mc check --init=Init    --inv=IndInv --length=0              *)
(*   apalache-mc check --init=IndInit --inv=FreshStep --length=1           *)
(*   apalache-mc check --init=IndInit --inv=NoDeepState --length=0  (refuted)*)
(***************************************************************************)
EXTENDS Integers, Sequences, FiniteSets, TLC

P0 == 3
W1 == 2
W2 == 4
MaxIter == 1000000
MaxSolves == 1000000
MaxRefills == 1000000
HistoryOn == "local"
ClampOn == "local"
CacheKey == "none"

VARIABLES
  \* @type: Str;
  phase,
  \* @type: Int;
  nsolves,
  \* @type: Int;
  nrefills,
  \* @type: Int -> Int;
  ver,
  \* @type: Int;
  cur,
  \* @type: Int;
  objP0,
  \* @type: Int;
  objHist,
  \* @type: Int;
  localHist,
  \* @type: { key: Int, content: Int };
  cache,
  \* @type: Int;
  usedP0,
  \* @type: Int;
  usedVer,
  \* @type: Int;
  iters,
  \* @type: { histLen: Int, iters: Int, p0: Int, width: Int, ver: Int, cur: Int };
  ret

INSTANCE SolverObject

Safe == HistPerSolve /\ ParamsStable /\ WsFromCtor

IndInv ==
  /\ phase \in {"idle", "run"}
  /\ nsolves >= 0 /\ nrefills >= 0 /\ iters >= 0
  /\ \A b \in Buffers : ver[b] >= 1
  /\ DOMAIN ver = Buffers
  /\ objP0 = P0 /\ objHist = 0
  /\ cache = [key |-> 0, content |-> 0]
  /\ (phase = "idle") = (cur = 0)
  /\ phase = "run" => /\ cur \in Buffers
                      /\ localHist = iters
                      /\ usedP0 = Min(P0, Widths[cur])
                      /\ usedVer = ver[cur]
  /\ Safe

IndInit ==
  /\ phase \in {"idle", "run"}
  /\ nsolves \in Nat /\ nrefills \in Nat /\ iters \in Nat
  /\ ver \in [Buffers -> Nat]
  /\ cur \in 0..2
  /\ objP0 \in Int /\ objHist \in Int /\ localHist \in Int
  /\ cache \in [key: 0..2, content: Nat]
  /\ usedP0 \in Int /\ usedVer \in Int
  /\ ret \in [histLen: Int, iters: Int, p0: Int, width: Int, ver: Int, cur: Int]
  /\ IndInv

\* non-vacuity control: IndInit admits deep running states (this "invariant" must be REFUTED)
NoDeepState == ~(phase = "run" /\ nsolves > 5 /\ ver[1] > 7 /\ iters > 3)

\* the action property FreshData as an action invariant
FreshStep == (phase = "run" /\ phase' = "idle") => ret'.ver = ver[ret'.cur]
=============================================================================
