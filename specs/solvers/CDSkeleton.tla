----------------------------- MODULE CDSkeleton -----------------------------
(***************************************************************************)
(* Control skeleton shared by the design model (CDCore) and the trace      *)
(* specification (SolverTrace): which event may follow which.              *)
(*                                                                         *)
(*   new --init--> outer --outer--> scored --ws--> inner --epoch/aa--> inner*)
(*   scored --return--> done          (converged, or budget exhausted)     *)
(*   inner  --record--> outer         (end of an outer iteration)          *)
(*   outer  --return--> done          (max_iter reached)                   *)
(* Solvers without working sets (GramCD, FISTA, LBFGS) go scored -> inner  *)
(* by their first epoch, or record straight from scored / outer.           *)
(* A deviation from the skeleton is DRIFT (binding), never a violation.    *)
(***************************************************************************)
Phases == {"new", "outer", "scored", "inner", "done"}

SkelOK(ph, e) ==
  CASE ph = "new"    -> e = "init"
    [] ph = "outer"  -> e \in {"outer", "return", "record"}
    [] ph = "scored" -> e \in {"ws", "epoch", "record", "return"}
    [] ph = "inner"  -> e \in {"epoch", "aa", "record", "return"}
    [] ph = "done"   -> FALSE
    [] OTHER         -> FALSE

SkelNext(ph, e) ==
  CASE e = "init"   -> "outer"
    [] e = "outer"  -> "scored"
    [] e = "ws"     -> "inner"
    [] e = "epoch"  -> "inner"
    [] e = "aa"     -> "inner"
    [] e = "record" -> "outer"
    [] e = "return" -> "done"
    [] OTHER        -> ph
=============================================================================
