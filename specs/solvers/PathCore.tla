------------------------------ MODULE PathCore ------------------------------
(***************************************************************************)
(* Design model of a regularisation path with warm starts (AndersonCD.path,*)
(* MultiTaskBCD.path and the estimators' path()): C05 at the level of the  *)
(* buffers.                                                                *)
(*                                                                         *)
(* Arrays are abstracted to what matters for the property:                 *)
(*   sol[t]    the version of the coefficients that the solve for          *)
(*             alpha_t returned (a fresh version number per solve)         *)
(*   coefs[t]  the version number currently stored in column t of the      *)
(*             array that path() will return                               *)
(*   w         version of the solver's working coefficients                *)
(*   alias     the column of `coefs` that `w` is a VIEW of (0 = w owns its *)
(*             memory)                                                     *)
(*   xwOff     whether the model-fit buffer Xw contains the intercept of   *)
(*             the coefficients it is paired with                          *)
(*   icpt      whether the current coefficients have a non-zero intercept  *)
(*   supp      whether the current coefficients have a non-empty support   *)
(*                                                                         *)
(* Actions, in the order of the code:                                      *)
(*   WarmStart(t)  w := coefs[:, t-1]            (a copy, or a view)       *)
(*                 Xw := X w + b   (or, as the code once did, X w only /   *)
(*                 0 when the support is empty)                            *)
(*   Solve(t)      in-place updates of w and Xw; on return they are        *)
(*                 consistent IFF they were consistent at the start        *)
(*                 (the solver trusts its buffers)                         *)
(*   Store(t)      coefs[:, t] := w  (a copy)                              *)
(*                                                                         *)
(* Properties:                                                             *)
(*   StoredStable   a stored column is never modified afterwards:          *)
(*                  coefs[s] = sol[s] for every s already stored           *)
(*   FitConsistent  at the start of every solve Xw = X w + b               *)
(* TLC checks them for the constants describing the code (copy, intercept  *)
(* included) and refutes them for the two variants that were seeded or     *)
(* present at the pinned commit (view instead of copy; intercept dropped   *)
(* when the support is empty).                                             *)
(***************************************************************************)
EXTENDS Integers, Sequences, FiniteSets, TLC

CONSTANTS N,                     \* number of grid points
          CopyOnWarmStart,       \* w = coefs[:, t-1].copy()   (FALSE: a view)
          XwIncludesIntercept    \* "always" | "if_support" : when the intercept enters the warm-start model fit

VARIABLES t, phase, w, alias, coefs, sol, nver, xwCons, icpt, supp
vars == <<t, phase, w, alias, coefs, sol, nver, xwCons, icpt, supp>>

Init == /\ t = 1 /\ phase = "warm"
        /\ w = 0 /\ alias = 0
        /\ coefs = [s \in 1..N |-> 0] /\ sol = [s \in 1..N |-> 0]
        /\ nver = 0 /\ xwCons = TRUE
        /\ icpt \in BOOLEAN /\ supp \in BOOLEAN          \* the user's coef_init: any shape

WarmStart ==
  /\ phase = "warm" /\ t <= N
  /\ IF t = 1
     THEN /\ UNCHANGED <<w, alias>>
          \* coef_init given by the user: the fit buffer is built by path()
          /\ xwCons' = (XwIncludesIntercept = "always" \/ supp \/ ~icpt)
     ELSE /\ w' = coefs[t - 1]
          /\ alias' = (IF CopyOnWarmStart THEN 0 ELSE t - 1)
          /\ xwCons' = xwCons                             \* Xw is carried over from the previous solve
  /\ phase' = "solve" /\ UNCHANGED <<t, coefs, sol, nver, icpt, supp>>

\* the solver overwrites w (and whatever w is a view of) with a new version; it keeps Xw in step with w,
\* so the pair is consistent on return exactly when it was on entry
Solve ==
  /\ phase = "solve"
  /\ nver' = nver + 1 /\ w' = nver + 1
  /\ sol' = [sol EXCEPT ![t] = nver + 1]
  /\ coefs' = (IF alias # 0 THEN [coefs EXCEPT ![alias] = nver + 1] ELSE coefs)
  /\ icpt' \in BOOLEAN /\ supp' \in BOOLEAN
  /\ phase' = "store" /\ UNCHANGED <<t, alias, xwCons>>

Store ==
  /\ phase = "store"
  /\ coefs' = [coefs EXCEPT ![t] = w]
  /\ t' = t + 1 /\ phase' = "warm" /\ alias' = 0
  /\ UNCHANGED <<w, sol, nver, xwCons, icpt, supp>>

Next == WarmStart \/ Solve \/ Store
Spec == Init /\ [][Next]_vars

StoredStable == \A s \in 1..N : s < t => coefs[s] = sol[s]
FitConsistent == phase = "solve" => xwCons
=============================================================================
