------------------------------- MODULE CDCore -------------------------------
(***************************************************************************)
(* Abstract design model of the working-set coordinate-descent solvers of  *)
(* skglm (AndersonCD, GroupBCD, MultiTaskBCD, GramCD; the outer loop of    *)
(* ProxNewton / GroupProxNewton), one action per critical section of       *)
(* `_solve`:                                                               *)
(*                                                                         *)
(*   OuterScore  grad from the bookkeeping fit Xw, stop_crit               *)
(*   Converged   stop_crit <= tol -> return                                *)
(*   BuildWS     ws_size formula, inf-marking, argpartition (any tie-break)*)
(*   Epoch       one CD sweep over ws (+ intercept step)                   *)
(*   AAStep      store the iterate, or extrapolate and run the guard       *)
(*   EndInner    budget exhausted / inner criterion met                    *)
(*   Record      append p_obj to the history                               *)
(*   Return      max_iter reached                                          *)
(*                                                                         *)
(* Numbers are abstracted to what the properties talk about:               *)
(*   supp   generalised support of w           ws    working set           *)
(*   cons   Xw = X w + b  (bookkeeping is truthful)                        *)
(*   infeas coordinates violating a configured positivity / box constraint *)
(*   obj    level of the TRUE objective F(w) in 0..M ; INF = M+1           *)
(*   wopt / bopt   w (resp. the intercept) satisfies first-order optimality*)
(*   crit   what the code computed: "below" / "above" the tolerance        *)
(*   wver   version of w ; critVer the version that was scored             *)
(*                                                                         *)
(* The constants name the places where the solvers differ from each other  *)
(* and from the intended design; the per-solver .cfg files set them to     *)
(* what the code does. Every budget (max_iter, max_epochs) is explored:    *)
(* Return / EndInner are enabled at every iteration count, so "every       *)
(* stopping point" is "every reachable state".                             *)
(***************************************************************************)
EXTENDS Integers, FiniteSets, Sequences, TLC, CDSkeleton

CONSTANTS P,                 \* number of features (blocks)
          K,                 \* Anderson memory (code: 5; the period only shifts)
          MaxIter, MaxEpochs,\* largest budgets explored
          M,                 \* objective levels 0..M
          AAScope,           \* "ws": extrapolate w[ws] and write zeros elsewhere (MultiTaskBCD; AndersonCD at the pinned
                             \* commit) ; "ws_keep": extrapolate w[ws], keep the other coefficients (AndersonCD now)
                             \* "full": extrapolate the whole w (GroupBCD, GramCD) ; "none": no acceleration
          AAResetPerWS,      \* a fresh accelerator per working set
          WsCoversMarked,    \* ws_size >= number of inf-marked features (support and unpenalised)
          ValueEncodesConstraint, \* penalty.value(w) = +inf on infeasible w (so the guard rejects them)
          InterceptInCrit,   \* stop_crit includes the intercept gradient
          CritInit,          \* "inf" | "zero" : value of stop_crit before the first scoring
          RecordIsFresh,     \* the recorded p_obj is the objective of the iterate at that time
          HistPreallocated   \* history array has max_iter entries whatever happened

Feat == 1..P
INF == M + 1
Max(a, b) == IF a > b THEN a ELSE b
Min(a, b) == IF a < b THEN a ELSE b

VARIABLES phase, t, ep,
          unpen, p0, positive,     \* chosen once: unpenalised features, first ws size, constraint configured
          maxIter, maxEpochs,      \* chosen once: the budgets of this run
          supp, ws, cons, infeas, obj, wopt, bopt,
          crit, critVer, wver,
          aa, aaDue, moved,
          nrec, lastFresh, itersDone,
          done, retCrit, histLen
vars == <<phase, t, ep, unpen, p0, positive, maxIter, maxEpochs, supp, ws, cons, infeas, obj, wopt,
          bopt, crit, critVer, wver, aa, aaDue, moved, nrec, lastFresh, itersDone, done, retCrit, histLen>>

Init == /\ phase = "outer" /\ t = 0 /\ ep = 0
        /\ unpen \in SUBSET Feat /\ p0 \in {1, 2, P} /\ positive \in BOOLEAN
        /\ maxIter \in 0..MaxIter /\ maxEpochs \in 1..MaxEpochs
        /\ supp \in SUBSET Feat            \* any warm start, with its consistent fit
        /\ ws = {} /\ cons = TRUE /\ infeas = {} /\ obj \in 0..M
        /\ wopt \in BOOLEAN /\ bopt \in BOOLEAN
        /\ crit = (IF CritInit = "zero" THEN "below" ELSE "above") /\ critVer = -1 /\ wver = 0
        /\ aa = 0 /\ aaDue = FALSE /\ moved = FALSE /\ nrec = 0 /\ lastFresh = TRUE /\ itersDone = 0
        /\ done = FALSE /\ retCrit = "above" /\ histLen = 0

Fixed == UNCHANGED <<unpen, p0, positive, maxIter, maxEpochs>>

\* ---------------------------------------------------------------- outer scoring
\* The code scores w with the gradient computed from its bookkeeping Xw: truthful iff cons.
OuterScore ==
  /\ phase = "outer" /\ ~done /\ t < maxIter
  /\ \E c \in {"below", "above"} :
       /\ cons => (c = "below") = (wopt /\ (InterceptInCrit => bopt))
       /\ crit' = c
  /\ critVer' = wver
  /\ phase' = SkelNext(phase, "outer")
  /\ Fixed /\ UNCHANGED <<t, ep, supp, ws, cons, infeas, obj, wopt, bopt, wver, aa, aaDue, moved, nrec,
                          lastFresh, itersDone, done, retCrit, histLen>>

Finish(c) == /\ done' = TRUE /\ retCrit' = c /\ phase' = "done"
             /\ histLen' = (IF HistPreallocated THEN maxIter ELSE nrec)

Converged ==
  /\ phase = "scored" /\ crit = "below"
  /\ Finish(crit)
  /\ Fixed /\ UNCHANGED <<t, ep, supp, ws, cons, infeas, obj, wopt, bopt, crit, critVer, wver, aa,
                          aaDue, moved, nrec, lastFresh, itersDone>>

\* max_iter exhausted (also max_iter = 0: nothing was ever scored)
Return ==
  /\ phase = "outer" /\ ~done /\ t = maxIter
  /\ Finish(crit)
  /\ Fixed /\ UNCHANGED <<t, ep, supp, ws, cons, infeas, obj, wopt, bopt, crit, critVer, wver, aa,
                          aaDue, moved, nrec, lastFresh, itersDone>>

\* ---------------------------------------------------------------- working set
Marked == unpen \cup supp
WsSize == IF WsCoversMarked
          THEN Max(Max(Min(p0 + Cardinality(unpen), P), Min(2 * Cardinality(supp) - Cardinality(unpen), P)),
                   Cardinality(Marked))
          ELSE Max(Min(p0 + Cardinality(unpen), P), Min(2 * Cardinality(supp) - Cardinality(unpen), P))

BuildWS ==
  /\ phase = "scored" /\ crit = "above"
  /\ \E W \in SUBSET Feat :
       /\ Cardinality(W) = WsSize
       \* scores of marked features are +inf: argpartition takes them first, any tie-break among them
       /\ IF Cardinality(Marked) >= WsSize THEN W \subseteq Marked ELSE Marked \subseteq W
       /\ ws' = W
  /\ aa' = (IF AAResetPerWS THEN 0 ELSE aa)
  /\ aaDue' = FALSE
  /\ ep' = 0
  /\ phase' = SkelNext(phase, "ws")
  /\ Fixed /\ UNCHANGED <<t, unpen, supp, cons, infeas, obj, wopt, bopt, crit, critVer, wver, moved,
                          nrec, lastFresh, itersDone, done, retCrit, histLen>>

\* ---------------------------------------------------------------- one epoch
\* Exact coordinate majorisation: with a truthful fit the true objective cannot increase and the
\* prox puts every visited coordinate into the feasible set. With a stale fit nothing is known.
Epoch ==
  /\ phase = "inner" /\ ep < maxEpochs /\ ~aaDue
  /\ \E Snew \in SUBSET ws : supp' = (supp \ ws) \cup Snew
  /\ infeas' = infeas \ ws
  /\ \E o \in 0..M : (cons => o <= obj) /\ obj' = (IF infeas' = {} THEN o ELSE INF)
  /\ wopt' \in BOOLEAN /\ bopt' \in BOOLEAN
  /\ wver' = wver + 1 /\ moved' = TRUE
  /\ ep' = ep + 1
  /\ aaDue' = (AAScope # "none")
  /\ Fixed /\ UNCHANGED <<phase, t, ws, cons, crit, critVer, aa, nrec, lastFresh, itersDone, done,
                          retCrit, histLen>>

\* ---------------------------------------------------------------- Anderson step (after each epoch)
AAStore ==
  /\ phase = "inner" /\ aaDue /\ aa <= K
  /\ aa' = aa + 1 /\ aaDue' = FALSE
  /\ Fixed /\ UNCHANGED <<phase, t, ep, supp, ws, cons, infeas, obj, wopt, bopt, crit, critVer,
                          wver, moved, nrec, lastFresh, itersDone, done, retCrit, histLen>>

\* The extrapolated point is an affine combination of stored iterates: anything on the scope.
\* The code accepts iff value(acc) < value(cur), both computed from ITS buffers and value functions.
AAExtrapolate ==
  /\ phase = "inner" /\ aaDue /\ aa = K + 1
  /\ aa' = 0 /\ aaDue' = FALSE
  /\ LET scope == IF AAScope \in {"ws", "ws_keep"} THEN ws ELSE Feat
         kept == IF AAScope = "ws_keep" THEN supp \ scope ELSE {}     \* coefficients outside the scope that survive
         outside == (supp \ scope) \ kept        \* support the extrapolated w drops (w_acc = 0 there)
     IN \/ \* rejected (or LinAlgError): nothing changes
           UNCHANGED <<supp, cons, infeas, obj, wopt, bopt, wver>>
        \/ \* accepted
           \E Snew \in SUBSET scope : \E Bad \in SUBSET Snew : \E o \in 0..M :
             /\ positive \/ Bad = {}
             \* an infeasible candidate has value +inf iff the penalty encodes its constraint
             /\ ValueEncodesConstraint => Bad = {}
             \* the guard saw a decrease; what it saw is the truth iff the buffers are truthful
             /\ (cons /\ outside = {} /\ Bad = {} /\ infeas = {}) => o < obj
             /\ supp' = Snew \cup kept
             /\ infeas' = Bad \cup (IF AAScope = "ws" THEN {} ELSE infeas \ scope)
             /\ cons' = (cons /\ outside = {})    \* Xw_acc extrapolates the FULL fit
             /\ obj' = (IF infeas' = {} THEN o ELSE INF)
             /\ wopt' \in BOOLEAN /\ bopt' \in BOOLEAN
             /\ wver' = wver + 1
  /\ Fixed /\ UNCHANGED <<phase, t, ep, ws, crit, critVer, moved, nrec, lastFresh, itersDone, done,
                          retCrit, histLen>>

\* ---------------------------------------------------------------- end of the inner loop, history
Record ==
  /\ phase = "inner" /\ ep >= 1 /\ ~aaDue
  /\ nrec' = nrec + 1
  /\ lastFresh' = RecordIsFresh
  /\ itersDone' = itersDone + 1
  /\ t' = t + 1
  /\ phase' = SkelNext(phase, "record")
  /\ Fixed /\ UNCHANGED <<ep, supp, ws, cons, infeas, obj, wopt, bopt, crit, critVer, wver, aa,
                          aaDue, moved, done, retCrit, histLen>>

Next == OuterScore \/ Converged \/ Return \/ BuildWS \/ Epoch \/ AAStore \/ AAExtrapolate \/ Record
Spec == Init /\ [][Next]_vars

\* ================================================================ properties
TypeOK == /\ phase \in Phases /\ t \in 0..MaxIter /\ ep \in 0..MaxEpochs /\ aa \in 0..(K + 1)
          /\ supp \subseteq Feat /\ ws \subseteq Feat /\ infeas \subseteq Feat /\ obj \in 0..INF

\* C01: a reported convergence certifies the returned point
CertSound == done /\ retCrit = "below" => wopt /\ bopt
\* C05: the caller's fit buffer is truthful on return
Consistent == done => cons
\* C03: the true objective never increases, at any stopping point
Descent == [][obj' <= obj]_vars
\* C04: with a configured constraint, every iterate after the first epoch is feasible
Feasible == moved => infeas = {}
\* C17
HistFaithful == done => histLen = itersDone /\ (nrec > 0 => lastFresh)
CritOfReturned == done /\ retCrit = "below" => critVer = wver
\* mechanism lemmas (what the properties rest on)
SuppInWS == phase = "inner" /\ AAScope = "ws" => supp \subseteq ws
AACounter == aa <= K + 1
=============================================================================
