---------------------------- MODULE SolverObject ----------------------------
(***************************************************************************)
(* Design model of the LIFE OF ONE SOLVER OBJECT over several calls of     *)
(* solve() (C17 "diagnostics describe the run that happened", C18 "fitting *)
(* is pure" at the level of the solver).                                   *)
(*                                                                         *)
(* A solver object carries constructor parameters (p0, max_iter, ...) and, *)
(* in the variants this model must exclude, state that survives a solve:   *)
(*   * an objective history kept on the object                             *)
(*   * a constructor parameter overwritten by its clamped value            *)
(*   * a cache (Gram matrix, Lipschitz constants, sorted indices) keyed by *)
(*     the identity of the design buffer instead of its content            *)
(*                                                                         *)
(* The caller owns two design buffers; it may refill a buffer in place     *)
(* (same id, other numbers, possibly another width is modelled by choosing *)
(* a buffer of the other width).                                           *)
(*                                                                         *)
(* One action per step of the code:                                        *)
(*   Refill(b)  caller writes new numbers into buffer b                    *)
(*   Enter(b)   solve(X = buffer b): clamp p0, look the cache up           *)
(*   Iterate    one outer iteration: an objective is recorded              *)
(*   Return     the history is handed to the caller                        *)
(*                                                                         *)
(* Properties (all refer to what ONE solve returns):                       *)
(*   HistPerSolve   length of the returned history = outer iterations of   *)
(*                  THIS solve                                             *)
(*   ParamsStable   the constructor parameters on the object are what the  *)
(*                  user wrote                                             *)
(*   WsFromCtor     the working-set size used = min(user's p0, width)      *)
(*   FreshData      derived quantities used by the solve were computed     *)
(*                  from the current content of the buffer                 *)
(* TLC proves them for the constants describing the code and refutes each  *)
(* for the variant named after it (Bounds of the model: 2 buffers, 3       *)
(* solves, <= 2 iterations per solve, <= 2 refills).                       *)
(***************************************************************************)
EXTENDS Integers, Sequences, FiniteSets, TLC

CONSTANTS P0,             \* the user's p0
          W1, W2,         \* widths (number of features) of the caller's two design buffers
          MaxIter, MaxSolves, MaxRefills,
          HistoryOn,      \* "local" (code) | "object"
          ClampOn,        \* "local" (code) | "object"
          CacheKey        \* "none" (code) | "content" | "identity"

VARIABLES phase, nsolves, nrefills,
          ver,            \* ver[b]: version of the numbers in buffer b
          cur,            \* buffer being solved (0 outside a solve)
          objP0,          \* attribute p0 on the solver object
          objHist,        \* history kept on the object (length only)
          localHist,      \* history local to the running solve
          cache,          \* [key |-> buffer id or 0, content |-> version the cache was computed from]
          usedP0, usedVer, iters, ret
vars == <<phase, nsolves, nrefills, ver, cur, objP0, objHist, localHist, cache, usedP0, usedVer, iters, ret>>

Min(a, b) == IF a < b THEN a ELSE b
\* @type: Seq(Int);
Widths == <<W1, W2>>
Buffers == 1..2
NoRet == [histLen |-> 0, iters |-> 0, p0 |-> 0, width |-> 0, ver |-> 0, cur |-> 0]

Init == /\ phase = "idle" /\ nsolves = 0 /\ nrefills = 0
        /\ ver = [b \in Buffers |-> 1] /\ cur = 0
        /\ objP0 = P0 /\ objHist = 0 /\ localHist = 0
        /\ cache = [key |-> 0, content |-> 0]
        /\ usedP0 = 0 /\ usedVer = 0 /\ iters = 0 /\ ret = NoRet

Refill(b) ==
  /\ phase = "idle" /\ nrefills < MaxRefills
  /\ ver' = [ver EXCEPT ![b] = @ + 1] /\ nrefills' = nrefills + 1
  /\ UNCHANGED <<phase, nsolves, cur, objP0, objHist, localHist, cache, usedP0, usedVer, iters, ret>>

Enter(b) ==
  /\ phase = "idle" /\ nsolves < MaxSolves
  /\ cur' = b /\ phase' = "run" /\ iters' = 0 /\ localHist' = 0
  /\ LET p == Min(objP0, Widths[b]) IN
       /\ usedP0' = p
       /\ objP0' = (IF ClampOn = "object" THEN p ELSE objP0)
  /\ LET hit == CASE CacheKey = "none"     -> FALSE
                  [] CacheKey = "identity" -> cache.key = b
                  [] CacheKey = "content"  -> cache.key = b /\ cache.content = ver[b]
     IN IF hit THEN /\ usedVer' = cache.content /\ UNCHANGED cache
               ELSE /\ usedVer' = ver[b]
                    /\ cache' = (IF CacheKey = "none" THEN cache ELSE [key |-> b, content |-> ver[b]])
  /\ UNCHANGED <<nsolves, nrefills, ver, objHist, ret>>

Iterate ==
  /\ phase = "run" /\ iters < MaxIter
  /\ iters' = iters + 1
  /\ IF HistoryOn = "object" THEN objHist' = objHist + 1 /\ UNCHANGED localHist
                             ELSE localHist' = localHist + 1 /\ UNCHANGED objHist
  /\ UNCHANGED <<phase, nsolves, nrefills, ver, cur, objP0, cache, usedP0, usedVer, ret>>

Return ==
  /\ phase = "run" /\ iters >= 1
  /\ ret' = [histLen |-> (IF HistoryOn = "object" THEN objHist ELSE localHist), iters |-> iters,
             p0 |-> usedP0, width |-> Widths[cur], ver |-> usedVer, cur |-> cur]
  /\ phase' = "idle" /\ nsolves' = nsolves + 1 /\ cur' = 0
  /\ UNCHANGED <<nrefills, ver, objP0, objHist, localHist, cache, usedP0, usedVer, iters>>

Next == (\E b \in Buffers : Refill(b) \/ Enter(b)) \/ Iterate \/ Return
Spec == Init /\ [][Next]_vars

Returned == ret # NoRet
HistPerSolve == Returned => ret.histLen = ret.iters
ParamsStable == objP0 = P0
WsFromCtor == Returned => ret.p0 = Min(P0, ret.width)
\* evaluated at the moment of the return (the caller cannot refill during a solve)
FreshData == [][phase = "run" /\ phase' = "idle" => ret'.ver = ver[ret'.cur]]_vars
=============================================================================
