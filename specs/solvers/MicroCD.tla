------------------------------- MODULE MicroCD -------------------------------
(***************************************************************************)
(* Exact model of one working set of AndersonCD on a dyadic micro-world    *)
(* (DESIGN section 3.1): Quadratic datafit, L1 / positive L1 / weighted L1 *)
(* / MCP penalty, optional intercept; every quantity is an integer scaled  *)
(* by S = 2^k, so each float64 operation of `_cd_epoch` is exact and the   *)
(* model computes THE iterates the code computes.                          *)
(*                                                                         *)
(* Actions: Coord (one coordinate update: gradient from the bookkeeping    *)
(* fit Xw, step 1/L_j with L_j = ||X_j||^2 / n, prox, in-place update of   *)
(* Xw) and Intercept (b -= mean(Xw - y), Xw += delta), cyclic over the     *)
(* features, as in the code. After each epoch the model prints the exact   *)
(* state; the driver runs the real solver with max_epochs = k and the      *)
(* RelTrace monitor compares coefficient by coefficient (clause kernel_eq: *)
(* binding -- a mismatch is DRIFT of the design model, it is reported in   *)
(* evidence and disables the design-model part of the claim).              *)
(*                                                                         *)
(* Model-checked properties on the exact numbers:                          *)
(*   Consistent  Xw = X w + b   after every action                         *)
(*   (descent of the exact objective is judged by RelTrace on the emitted  *)
(*    exact states, with Python fractions: squares overflow 32-bit ints)   *)
(*   FeasibleX   positivity holds after every coordinate update            *)
(***************************************************************************)
EXTENDS Integers, Sequences, FiniteSets, TLC, Json

CONSTANTS Problems,     \* sequence of records [id, n, p, X (rows), y, alpha, pen, gamma, w8 (weights * 8), fi, order]
          S,            \* lattice scale 2^k
          MaxEpochs

VARIABLES pid, w, b, Xw, ep, j
vars == <<pid, w, b, Xw, ep, j>>

Pr == Problems[pid]
N == Pr.n
P == Pr.p
RECURSIVE SumF(_, _)
SumF(f, n) == IF n = 0 THEN 0 ELSE f[n] + SumF(f, n - 1)
Col(k) == [i \in 1..N |-> Pr.X[i][k]]
Dot(a, c, n) == SumF([i \in 1..n |-> a[i] * c[i]], n)
Abs(x) == IF x < 0 THEN -x ELSE x
ExactDiv(a, d) == IF a % d = 0 THEN a \div d ELSE Assert(FALSE, <<"off lattice", Pr.id, a, d>>)
Lnum(k) == Dot(Col(k), Col(k), N)                       \* n * L_k
Y == [i \in 1..N |-> Pr.y[i] * S]
Alpha == Pr.alpha                                       \* already scaled by S
Wt(k) == Pr.w8[k]                                       \* weight * 8

\* soft thresholding, optionally one-sided
ST(v, t, pos) == IF v > t THEN v - t ELSE IF v < -t /\ ~pos THEN v + t ELSE 0
\* prox of step * MCP(alpha, gamma) at v (gamma integer, step = num/den rational):
\*   0 if |v| <= alpha step ; v if |v| > alpha gamma ; sign(v)(|v| - alpha step)/(1 - step/gamma) otherwise
ProxMCP(v, snum, sden, pos) ==
  LET thr == ExactDiv(Alpha * snum, sden) IN
  IF Abs(v) <= thr \/ (pos /\ v <= 0) THEN 0
  ELSE IF Abs(v) > Alpha * Pr.gamma THEN v
  ELSE LET num == (Abs(v) - thr) * (Pr.gamma * sden)
           den == Pr.gamma * sden - snum
       IN (IF v > 0 THEN 1 ELSE -1) * ExactDiv(num, den)

Prox(v, k) ==       \* step = N / Lnum(k)
  CASE Pr.pen = "L1" -> ST(v, ExactDiv(Alpha * N, Lnum(k)), FALSE)
    [] Pr.pen = "L1pos" -> ST(v, ExactDiv(Alpha * N, Lnum(k)), TRUE)
    [] Pr.pen = "WeightedL1" -> ST(v, ExactDiv(Alpha * N * Wt(k), 8 * Lnum(k)), FALSE)
    [] Pr.pen = "MCP" -> ProxMCP(v, N, Lnum(k), FALSE)

Init == /\ pid \in 1..Len(Problems)
        /\ w = [k \in 1..Problems[pid].p |-> 0] /\ b = 0
        /\ Xw = [i \in 1..Problems[pid].n |-> 0]
        /\ ep = 0 /\ j = 1

\* the sweep visits the working set in ARRAY order (np.argpartition output): Pr.order is that order,
\* observed from the `ws` hook event of the real run (TLC cannot know numpy's partition order)
Coord == /\ ep < MaxEpochs /\ j <= P
         /\ LET f == Pr.order[j] IN
            IF Lnum(f) = 0
            THEN UNCHANGED <<w, Xw>>                 \* zero column: gradient 0, prox keeps 0 (cold start)
            ELSE LET g == Dot(Col(f), [i \in 1..N |-> Xw[i] - Y[i]], N)     \* n * grad_f
                     v == w[f] - ExactDiv(g, Lnum(f))
                     nw == Prox(v, f)
                 IN /\ w' = [w EXCEPT ![f] = nw]
                    /\ Xw' = [i \in 1..N |-> Xw[i] + (nw - w[f]) * Pr.X[i][f]]
         /\ j' = j + 1 /\ UNCHANGED <<pid, b, ep>>

EndEpoch == /\ ep < MaxEpochs /\ j = P + 1
            /\ IF Pr.fi
               THEN LET step == ExactDiv(SumF([i \in 1..N |-> Xw[i] - Y[i]], N), N)
                    IN /\ b' = b - step /\ Xw' = [i \in 1..N |-> Xw[i] - step]
               ELSE UNCHANGED <<b, Xw>>
            /\ j' = 1 /\ ep' = ep + 1
            /\ PrintT(ToJson([v |-> 4, id |-> Pr.id, ep |-> ep + 1, w |-> w, b |-> b', S |-> S]))
            /\ UNCHANGED <<pid, w>>

Next == Coord \/ EndEpoch
Spec == Init /\ [][Next]_vars

Consistent == \A i \in 1..N : Xw[i] = Dot(Pr.X[i], w, P) + b
FeasibleX == Pr.pen = "L1pos" => \A k \in 1..P : w[k] >= 0
=============================================================================
